----------------------------- MODULE NamesEdit -----------------------------
(* C14 on a custom registry with EDITED contents.  The clause "denotes the   *)
(* same unit whether reached by string, by attribute or through a custom     *)
(* registry's namespace", and "scaled by exactly the prefix", are about the  *)
(* registry's CURRENT contents, whatever was resolved before.                *)
(*                                                                           *)
(* Alphabet.  Keys edits may touch: the prefixable default symbol pc, the    *)
(* non-prefixable default symbol ft, the user symbols foo and kfoo (kfoo is  *)
(* also prefix k + foo, so "table symbol wins over prefix split" is          *)
(* observable).  Scales are mantissa names: "Dpc"/"Dft" (the default scale), *)
(* "2", "4", "7" (metres); a denotation is <<mantissa, decimal exponent>>.   *)
(* Twelve probe strings: atomic, alias, prefixed, word-prefixed alias,       *)
(* Title-case, prefix on a non-prefixable unit, user symbols.                *)
(*                                                                           *)
(* Transition side (same branch order as unyt/unit_registry.py add / remove  *)
(* / modify - each clears the string memo, none touches derived rows -,      *)
(* Unit.__new__ with the string memo, _lookup_unit_symbol with the derived-  *)
(* row write-back, unit_systems.add_symbols: Unit(attribute.expr, registry)  *)
(* for every unit_symbols attribute, then Unit(key, registry) for every      *)
(* other table key).  Property side: the reference view `user` (what the     *)
(* caller put in) and RefDens, the readings of a probe under it.             *)
EXTENDS Integers, Sequences, FiniteSets, TLC, Json

EditKeys == {"pc", "ft", "foo", "kfoo", "quux", "parsec", "kiloparsec", "kpc", "kft", "pccm", "a", "mcm"}   \* keys a call may put in the table
DerivedKeys == <<"kpc", "Mpc", "kft", "kfoo", "Mfoo", "Mpccm", "ka", "kmcm">>     \* keys _lookup_unit_symbol may write back
DerivedSet == {DerivedKeys[i] : i \in DOMAIN DerivedKeys}
AllKeys == EditKeys \cup DerivedSet
\* probe strings: s = spelling, e/b = its reading 10^e x unit b, canon = the symbol the tokenizer hands to the table
\* look-up (alias table), us = it is an attribute of unyt.unit_symbols
ProbeSeq == <<
  [s |-> "pc",         e |-> 0, b |-> "pc",  canon |-> "pc",   us |-> TRUE],
  [s |-> "parsec",     e |-> 0, b |-> "pc",  canon |-> "pc",   us |-> TRUE],
  [s |-> "kpc",        e |-> 3, b |-> "pc",  canon |-> "kpc",  us |-> TRUE],
  [s |-> "kiloparsec", e |-> 3, b |-> "pc",  canon |-> "kpc",  us |-> TRUE],
  [s |-> "Kiloparsec", e |-> 3, b |-> "pc",  canon |-> "kpc",  us |-> TRUE],
  [s |-> "Mpc",        e |-> 6, b |-> "pc",  canon |-> "Mpc",  us |-> TRUE],
  [s |-> "ft",         e |-> 0, b |-> "ft",  canon |-> "ft",   us |-> TRUE],
  [s |-> "foot",       e |-> 0, b |-> "ft",  canon |-> "ft",   us |-> TRUE],
  [s |-> "kft",        e |-> 3, b |-> "ft",  canon |-> "kft",  us |-> FALSE],
  [s |-> "foo",        e |-> 0, b |-> "foo", canon |-> "foo",  us |-> FALSE],
  [s |-> "kfoo",       e |-> 3, b |-> "foo", canon |-> "kfoo", us |-> FALSE],
  [s |-> "Mfoo",       e |-> 6, b |-> "foo", canon |-> "Mfoo", us |-> FALSE],
  [s |-> "quux",       e |-> 0, b |-> "quux", canon |-> "quux", us |-> FALSE],
  \* user symbols whose NAMES meet the special cases of the resolver: pccm ends in "cm" (the comoving-unit branch of
  \* _lookup_unit_symbol; Mpccm shares its head with the documented Mpc), a is a one-letter name that is also a prefix letter
  [s |-> "pccm",       e |-> 0, b |-> "pccm", canon |-> "pccm", us |-> FALSE],
  [s |-> "Mpccm",      e |-> 6, b |-> "pccm", canon |-> "Mpccm", us |-> FALSE],
  [s |-> "a",          e |-> 0, b |-> "a",    canon |-> "a",    us |-> FALSE],
  [s |-> "ka",         e |-> 3, b |-> "a",    canon |-> "ka",   us |-> FALSE],
  \* mcm: ends in "cm" too; kmcm shares its head with the documented km, which is not a probe: the sweep watches it
  [s |-> "mcm",        e |-> 0, b |-> "mcm",  canon |-> "mcm",  us |-> FALSE],
  [s |-> "kmcm",       e |-> 3, b |-> "mcm",  canon |-> "kmcm", us |-> FALSE]>>
ProbeNo(s) == CHOOSE p \in DOMAIN ProbeSeq : ProbeSeq[p].s = s
PIdx == DOMAIN ProbeSeq
\* derived key -> its split <<e, base>> (first character is the prefix)
SplitOf(c) == CASE c = "kpc" -> <<3, "pc">> [] c = "Mpc" -> <<6, "pc">> [] c = "kft" -> <<3, "ft">>
                [] c = "kfoo" -> <<3, "foo">> [] c = "Mfoo" -> <<6, "foo">>
                [] c = "Mpccm" -> <<6, "pccm">> [] c = "ka" -> <<3, "a">> [] c = "kmcm" -> <<3, "mcm">> [] OTHER -> <<0, "">>

Absent == [m |-> "", e |-> 0, pfx |-> FALSE]
Row(m, e, pfx) == [m |-> m, e |-> e, pfx |-> pfx]
Present(r) == r.m # ""
Table0 == [k \in AllKeys |-> IF k = "pc" THEN Row("Dpc", 0, TRUE) ELSE IF k = "ft" THEN Row("Dft", 0, FALSE) ELSE Absent]
\* the default registry is warm: importing unyt.unit_symbols resolved every documented prefixed name once
TableWarm == [Table0 EXCEPT !["kpc"] = Row("Dpc", 3, FALSE), !["Mpc"] = Row("Dpc", 6, FALSE)]
RaiseO == [k |-> "raise", den |-> <<>>]
UnitO(r) == [k |-> "unit", den |-> <<r.m, r.e>>]
OkO == [k |-> "ok", den |-> <<>>]

VARIABLES kind,   \* "custom" (a fresh UnitRegistry()) or "default" (unyt's default registry: modify/remove refused, warm)
          user,   \* reference view: key -> row | Absent (what the caller put in; defaults included)
          lut,    \* the table as the code keeps it (incl. derived rows)
          memo,   \* set of [s, o]: registry._unit_object_cache restricted to the probe strings
          hist,   \* the calls made so far
          last    \* result of the last call
evars == <<kind, user, lut, memo, hist, last>>
EditInitK(kd) == kind = kd /\ user = Table0 /\ lut = (IF kd = "default" THEN TableWarm ELSE Table0) /\ memo = {} /\ hist = <<>> /\ last = OkO
EditInit == \E kd \in {"custom", "default"} : EditInitK(kd)

\* ----------------------------------------------------------- transition side
\* _lookup_unit_symbol(c, lut): <<outcome, lut after>>
LookupE(c, L) ==
  IF Present(L[c]) THEN <<UnitO(L[c]), L>>
  ELSE LET sp == SplitOf(c) IN
       IF sp[2] # "" /\ Present(L[sp[2]]) /\ L[sp[2]].pfx
       THEN LET r == Row(L[sp[2]].m, L[sp[2]].e + sp[1], FALSE) IN <<UnitO(r), [L EXCEPT ![c] = r]>>
       ELSE <<RaiseO, L>>
Add(k, m, pfx) == /\ kind' = kind /\ lut' = [lut EXCEPT ![k] = Row(m, 0, pfx)] /\ user' = [user EXCEPT ![k] = Row(m, 0, pfx)]
                  /\ memo' = {} /\ last' = OkO
Remove(k) == /\ kind' = kind
             /\ IF Present(lut[k])
                THEN /\ lut' = [lut EXCEPT ![k] = Absent] /\ user' = [user EXCEPT ![k] = Absent] /\ memo' = {} /\ last' = OkO
                ELSE /\ UNCHANGED <<lut, user, memo>> /\ last' = RaiseO
Modify(k, m) == /\ kind' = kind
                /\ IF Present(lut[k])
                   THEN /\ lut' = [lut EXCEPT ![k].m = m, ![k].e = 0] /\ memo' = {} /\ last' = OkO
                        /\ user' = IF Present(user[k]) THEN [user EXCEPT ![k].m = m] ELSE user
                   ELSE /\ UNCHANGED <<lut, user, memo>> /\ last' = RaiseO
\* Unit(ProbeSeq[p].s, registry=reg): memo first; on success the string is memoised
PeekStr(p, L, M) == LET s == ProbeSeq[p].s IN
                    IF \E x \in M : x.s = s THEN <<(CHOOSE x \in M : x.s = s).o, L>> ELSE LookupE(ProbeSeq[p].canon, L)
\* (Unit(s) without registry= does not consult the memo: the default registry is always used that way here)
MemoRead == IF kind = "default" THEN {} ELSE memo
Construct(p) == LET r == PeekStr(p, lut, MemoRead) IN
                /\ kind' = kind /\ lut' = r[2] /\ last' = r[1] /\ user' = user
                /\ memo' = IF r[1].k = "unit" THEN memo \cup {[s |-> ProbeSeq[p].s, o |-> r[1]]} ELSE memo
\* add_symbols(ns, reg): the unit_symbols attributes in module order (ft's names come before pc's; a name that
\* cannot be resolved aborts the whole call - before any of the modelled derived rows is written), then the other keys
UsOrder == <<7, 8, 1, 2, 3, 4, 5, 6>>
RECURSIVE NsWalk(_, _, _)
NsWalk(i, L, acc) == IF i > Len(UsOrder) THEN <<TRUE, L, acc>>
                     ELSE LET r == LookupE(ProbeSeq[UsOrder[i]].canon, L) IN
                          IF r[1].k = "raise" THEN <<FALSE, L, acc>>
                          ELSE NsWalk(i + 1, r[2], [acc EXCEPT ![UsOrder[i]] = r[1]])
NsAbsent == [k |-> "absent", den |-> <<>>]
NsOf(L) == LET w == NsWalk(1, L, [p \in PIdx |-> NsAbsent]) IN
           IF ~w[1] THEN [ok |-> FALSE, lut |-> L, ns |-> [p \in PIdx |-> NsAbsent]]
           ELSE [ok |-> TRUE, lut |-> w[2],
                 ns |-> [p \in PIdx |-> IF ProbeSeq[p].us THEN w[3][p]
                                        ELSE IF ProbeSeq[p].s \in AllKeys /\ Present(w[2][ProbeSeq[p].s]) THEN UnitO(w[2][ProbeSeq[p].s]) ELSE NsAbsent]]
AddSymbols == LET r == NsOf(lut) IN
              /\ kind' = kind /\ lut' = r.lut /\ user' = user
              /\ last' = [k |-> IF r.ok THEN "ns" ELSE "raise", den |-> <<>>, ns |-> r.ns]
              /\ memo' = IF r.ok THEN memo \cup {[s |-> ProbeSeq[p].s, o |-> r.ns[p]] : p \in {q \in PIdx : ~ProbeSeq[q].us /\ r.ns[q].k = "unit"
                                                                                               /\ ~(\E x \in memo : x.s = ProbeSeq[q].s)}}
                         ELSE memo

\* unit_object.define_unit(sym, (m, "m"), prefixable=pfx, registry=reg): refused when `sym in registry` - a table key, or a
\* prefix + prefixable key (the test resolves the RAW symbol, no alias table, and writes the derived row back as a side
\* effect); otherwise registry.add (memo cleared) and, on the default registry, Unit(sym) is built and bound to unyt.<sym>
Define(sym, m, pfx) ==
  /\ kind' = kind
  /\ IF Present(lut[sym])
     THEN /\ UNCHANGED <<lut, user, memo>> /\ last' = RaiseO
     ELSE IF LookupE(sym, lut)[1].k = "unit"
          THEN /\ lut' = LookupE(sym, lut)[2] /\ UNCHANGED <<user, memo>> /\ last' = RaiseO
          ELSE LET L1 == [lut EXCEPT ![sym] = Row(m, 0, pfx)]
                   u == PeekStr(ProbeNo(sym), L1, {}) IN
               /\ user' = [user EXCEPT ![sym] = Row(m, 0, pfx)] /\ last' = OkO
               /\ lut' = (IF kind = "default" THEN u[2] ELSE L1)
               /\ memo' = (IF kind = "default" /\ u[1].k = "unit" THEN {[s |-> sym, o |-> u[1]]} ELSE {})

\* ------------------------------------------------------------ property side
\* the readings of probe p under the caller's view U (a set of acceptable outcomes):
\*  - a string that is itself a table key and is looked up as such: the table symbol wins (kpc, kft, kfoo, quux ...);
\*  - otherwise prefix x a prefixable unit / the unit its spelling names / rejected;
\*  - NOT DECIDED by the statement (both outcomes acceptable, the routes must still agree): a key the caller put in the table
\*    under a name the tokenizer maps elsewhere ("parsec" -> pc, "kiloparsec" -> kpc), or an alias whose canonical
\*    symbol the caller redefined as a table symbol ("kiloparsec" when kpc is a user key)
BaseReading(U, q) == IF ~Present(U[q.b]) THEN RaiseO
                     ELSE IF q.e = 0 THEN UnitO(U[q.b])
                     ELSE IF U[q.b].pfx THEN UnitO(Row(U[q.b].m, q.e, FALSE)) ELSE RaiseO
RefDens(U, p) == LET q == ProbeSeq[p] IN
                 IF q.s = q.canon /\ q.s \in EditKeys /\ Present(U[q.s]) THEN {UnitO(U[q.s])}
                 ELSE {BaseReading(U, q)}
                      \cup (IF q.s # q.canon /\ q.s \in EditKeys /\ Present(U[q.s]) THEN {UnitO(U[q.s])} ELSE {})
                      \cup (IF q.s # q.canon /\ q.canon # q.b /\ q.canon \in EditKeys /\ Present(U[q.canon]) THEN {UnitO(U[q.canon])} ELSE {})
\* an observed resolution o = [ok, den (tuple of <<mantissa, exponent>>)] agrees with one of the readings
Agrees1(o, want) == IF want.k = "raise" THEN ~o.ok ELSE o.ok /\ (\E x \in DOMAIN o.den : o.den[x] = want.den)
Agrees(o, W) == \E want \in W : Agrees1(o, want)
\* EditStr: the string denotes its reading under the current contents (accepted iff it has one)
C14_EditStr(U, p, o) == Agrees(o, RefDens(U, p))
\* EditNs: a namespace entry denotes the reading of its name under the contents at the time the namespace was filled
C14_EditNs(U, p, a) == a.present => Agrees(a, RefDens(U, p))
\* DefineGuard: no string gets a second reading - define_unit must refuse a symbol that already reads as a unit of the
\* registry: a table key, or prefix + prefixable key, whether or not the prefixed spelling was resolved before
HasSymbolReading(U, sym) == \/ (sym \in EditKeys /\ Present(U[sym]))
                            \/ (SplitOf(sym)[2] # "" /\ Present(U[SplitOf(sym)[2]]) /\ U[SplitOf(sym)[2]].pfx)
C14_DefineGuard(U, sym, accepted) == HasSymbolReading(U, sym) => ~accepted
\* which memo layer explains a stale answer: a derived prefixed row written before the base symbol was edited
\* (the defect C12 records: derived rows survive add/modify/remove of their base symbol), or none
LayerModel(U, p, rowsBefore) == LET c == ProbeSeq[p].canon IN
                           IF (\E i \in DOMAIN DerivedKeys : DerivedKeys[i] = c /\ rowsBefore[i]) /\ ~(c \in EditKeys /\ Present(U[c]))
                           THEN "lutrow" ELSE "fresh"
\* on observations the layer is "lutrow" only for a derived key whose row was already in the table when its base symbol
\* was edited and has been there ever since (S = the set of such keys, maintained by the trace specification); a wrong
\* row under a key whose base symbol was never edited is not that defect
Layer(S, p) == IF ProbeSeq[p].canon \in S THEN "lutrow" ELSE "fresh"
StaleAfter(S, e, rowsBefore, rowsAfter) ==
  LET S1 == IF e.op \in {"add", "remove", "modify", "define"} /\ e.obs.k = "ok"
            THEN S \cup {DerivedKeys[i] : i \in {j \in DOMAIN DerivedKeys : rowsBefore[j] /\ SplitOf(DerivedKeys[j])[2] = e.k}}
            ELSE S IN
  {c \in S1 : \E i \in DOMAIN DerivedKeys : DerivedKeys[i] = c /\ rowsAfter[i]} \ (IF e.op \in {"add", "define"} /\ e.obs.k = "ok" THEN {e.k} ELSE {})
ModelRows(L) == [i \in DOMAIN DerivedKeys |-> Present(L[DerivedKeys[i]])]
=============================================================================
