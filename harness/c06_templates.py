"""Argument templates of the C06 catalogue layer: (class, template) -> builder(ctx) making ONE call.

The assignment function -> class and class -> template names is stated in spec/ArrayFnNum.tla (TLC generates the
cases); this module only instantiates a (class, template) pair on the shape / dtype / seed of the case.  The same
builder runs twice (unyt inputs, bare inputs) from the same random stream.  ctx.f is the NumPy function of the case
(ctx.meth the method name for "nd.*")."""

TT = {}
NOVALUES = {"empty"}  # classes whose result values are unspecified (np.empty_like)
FNS = {}  # dev aid only: class -> function names (the spec's table is the authority)


def G(cls, fns, **templates):
    FNS.setdefault(cls, [])
    FNS[cls] += fns.split()
    for t, b in templates.items():
        TT[(cls, t)] = b


def need1(c):
    """templates with axis=0 on a 0-d input: NumPy 2.5 segfaults in cumsum/cumprod(0-d, axis=0, out=...); refuse in both modes"""
    if len(c.sh) < 1:
        raise ValueError("template needs ndim >= 1")
    return c


# ---- reductions -------------------------------------------------------------------------------------------
_red = dict(
    pos=lambda c: c.f(c.A()),
    axis0=lambda c: c.f(c.A(), axis=0),
    axm1k=lambda c: c.f(c.A(), axis=-1, keepdims=True),
    axpos=lambda c: c.f(c.A(), len(c.sh) - 1),
    out=lambda c: c.f(c.A(), axis=0, out=c.OUT(c.red_shape(0), dt=c.fo, fill=False)),
    outb=lambda c: c.f(c.A(), axis=0, out=c.OUT(c.red_shape(0), dt=c.fo, u=None, fill=False)),
)
G("red_a", "np.sum np.prod np.nansum np.nanprod", **_red,
  dtype=lambda c: c.f(c.A(), axis=0, dtype=c.np.float32),
  initial=lambda c: c.f(c.A(), axis=0, initial=2),
  where=lambda c: c.f(c.A(), axis=0, where=c.B(), initial=1))
G("red_nm", "np.nanmax np.nanmin", **_red)
G("red_m", "np.max np.min np.amax np.amin", **_red,
  initial=lambda c: c.f(c.A(), axis=0, initial=c.raw(())),
  where=lambda c: c.f(c.A(), axis=0, where=c.B(), initial=c.raw(())))
G("red_s", "np.mean np.nanmean", **_red,
  dtype=lambda c: c.f(c.A(), axis=0, dtype=c.np.float32),
  where=lambda c: c.f(c.A(), axis=0, where=c.B()))
G("red_v", "np.std np.var np.nanstd np.nanvar", **_red,
  ddof=lambda c: c.f(c.A(), axis=0, ddof=1),
  ddofpos=lambda c: c.f(c.A(), 0, None, None, 1),
  where=lambda c: c.f(c.A(), axis=0, where=c.B()))
G("red_med", "np.median np.nanmedian np.ptp", pos=_red["pos"], axis0=_red["axis0"], axm1k=_red["axm1k"], out=_red["out"], outb=_red["outb"])
G("red_b", "np.any np.all", pos=_red["pos"], axis0=_red["axis0"], axm1k=_red["axm1k"],
  where=lambda c: c.f(c.A(), axis=0, where=c.B()))
G("red_c", "np.count_nonzero", pos=_red["pos"], axis0=_red["axis0"], axm1k=_red["axm1k"])
G("average", "np.average",
  pos=_red["pos"], axis0=_red["axis0"],
  weights=lambda c: c.f(c.A(), axis=0, weights=c.raw((c.sh[0],), pos=True)),
  returned=lambda c: c.f(c.A(), axis=0, weights=c.raw((c.sh[0],), pos=True), returned=True))
G("cum", "np.cumsum np.nancumsum np.nancumprod np.cumprod",
  pos=_red["pos"], axis0=lambda c: need1(c).f(c.A(), axis=0),
  out=lambda c: need1(c).f(c.A(), axis=0, out=c.OUT(c.sh, dt=c.fo, fill=False)),
  outb=lambda c: need1(c).f(c.A(), axis=0, out=c.OUT(c.sh, dt=c.fo, u=None, fill=False)),
  dtype=lambda c: need1(c).f(c.A(), axis=0, dtype=c.np.float32))
G("cum2", "np.cumulative_sum np.cumulative_prod",
  axis0=lambda c: need1(c).f(c.A(), axis=0),
  incl=lambda c: need1(c).f(c.A(), axis=-1, include_initial=True))
G("argred", "np.argmax np.argmin np.nanargmax np.nanargmin",
  pos=_red["pos"], axis0=_red["axis0"],
  axk=lambda c: c.f(c.A(), axis=-1, keepdims=True),
  out=lambda c: c.f(c.A(), axis=0, out=c.OUT(c.red_shape(0), dt="p", u=None, fill=False)))

# ---- sorting ----------------------------------------------------------------------------------------------
G("sort", "np.sort np.argsort",
  pos=lambda c: c.f(c.A()),
  axis0=lambda c: c.f(c.A(), axis=0),
  axnone=lambda c: c.f(c.A(), axis=None),
  stable=lambda c: c.f(c.A(), kind="stable"))
G("part", "np.partition",
  kth=lambda c: c.np.sort(c.np.asarray(c.f(c.A(uniq=True), 1)[..., :1]), axis=-1),
  kth0=lambda c: c.np.asarray(c.f(c.A(uniq=True), 1, axis=0))[1])
G("apart", "np.argpartition",
  kth=lambda c: c.np.asarray(c.f(c.A(uniq=True), 1))[..., 1],
  kth0=lambda c: c.np.asarray(c.f(c.A(uniq=True), 1, axis=0))[1])
G("sortc", "np.sort_complex", pos=lambda c: c.f(c.A()))
G("lexsort", "np.lexsort",
  pos=lambda c: c.f((c.A((4,)), c.A((4,)))),
  one=lambda c: c.f(c.A((2, 4))))

# ---- elementwise / unary ----------------------------------------------------------------------------------
G("el1", "np.real np.imag np.fix np.real_if_close np.isreal np.iscomplex np.isneginf np.isposinf np.angle np.i0 np.sinc np.copy np.iscomplexobj np.isrealobj np.ndim np.shape np.size np.nonzero np.flatnonzero np.argwhere np.ravel np.transpose np.permute_dims np.flipud np.flip np.atleast_1d np.atleast_2d np.atleast_3d np.squeeze np.diag np.diagflat np.unique np.unique_values np.unique_all np.unique_counts np.unique_inverse np.ones_like np.zeros_like np.trim_zeros np.fft.fftshift np.fft.ifftshift np.min_scalar_type np.common_type np.linalg.vector_norm",
  pos=lambda c: c.f(c.A()))
G("empty", "np.empty_like", pos=lambda c: c.f(c.A()), dtype=lambda c: c.f(c.A(), dtype=c.np.int32))
G("nan_to_num", "np.nan_to_num",
  pos=lambda c: c.f(_with_nan(c)),
  kw=lambda c: c.f(_with_nan(c), nan=1.5, posinf=7.0, neginf=-7.0),
  nocopy=lambda c: c.f(c.OUT(c.sh), copy=False))
G("round", "np.around np.round",
  pos=lambda c: c.f(c.A()),
  dec=lambda c: c.f(c.A(), 1),
  deckw=lambda c: c.f(c.A(), decimals=-1),
  out=lambda c: c.f(c.A(), decimals=1, out=c.OUT(c.sh, dt=c.fo, fill=False)))
G("angle", "np.angle", deg=lambda c: c.f(c.A(), deg=True))
G("axisopt", "np.flip np.squeeze np.unique np.fft.fftshift np.fft.ifftshift np.linalg.vector_norm",
  axis0=lambda c: c.f(c.A(c.sh if c.fn != "np.squeeze" else (1,) + c.sh), axis=0))
G("uniq", "np.unique",
  full=lambda c: c.f(c.A(), return_index=True, return_inverse=True, return_counts=True),
  eqnan=lambda c: c.f(_with_nan(c), equal_nan=False))
G("like", "np.ones_like np.zeros_like",
  dtype=lambda c: c.f(c.A(), dtype=c.np.int32),
  shape=lambda c: c.f(c.A(), shape=(2, 2)))
G("full_like", "np.full_like",
  pos=lambda c: c.f(c.A(), c.Q()),
  bare=lambda c: c.f(c.A(), 1.5),
  dtype=lambda c: c.f(c.A(), 2, dtype=c.np.int32))
G("mat1", "np.fliplr np.matrix_transpose np.linalg.matrix_transpose np.linalg.diagonal np.linalg.trace np.trace np.diagonal np.tril_indices_from np.triu_indices_from np.diag_indices_from",
  pos=lambda c: c.f(c.A()))
G("diagk", "np.diag np.diagflat np.triu np.tril np.tril_indices_from np.triu_indices_from",
  pos=lambda c: c.f(c.A()),
  k1=lambda c: c.f(c.A(), 1),
  km1=lambda c: c.f(c.A(), k=-1))
G("trace", "np.trace np.diagonal np.linalg.trace np.linalg.diagonal",
  off=lambda c: c.f(c.A(), offset=1))
G("trace2", "np.trace",
  offpos=lambda c: c.f(c.A(), -1, 1, 0),
  axes=lambda c: c.f(c.A((2, 2, 2)), axis1=1, axis2=2),
  dtype=lambda c: c.f(c.A(), dtype=c.np.float32),
  out=lambda c: c.f(c.A((2, 2, 2)), out=c.OUT((2,), dt=c.fo, fill=False)),
  outb=lambda c: c.f(c.A((2, 2, 2)), out=c.OUT((2,), dt=c.fo, u=None, fill=False)))
G("trim", "np.trim_zeros",
  z=lambda c: c.f(c.wrap(c.np.concatenate([c.np.zeros(2, c.raw().dtype), c.raw((3,), pos=True), c.np.zeros(1, c.raw().dtype)]))),
  front=lambda c: c.f(c.wrap(c.np.concatenate([c.np.zeros(2, c.raw().dtype), c.raw((3,), pos=True), c.np.zeros(1, c.raw().dtype)])), "f"))


def _with_nan(c):
    a = c.raw(dt="f" if c.dt in ("i", "f4") else c.dt)
    if a.size >= 3:
        a.flat[0] = c.np.nan
        a.flat[1] = c.np.inf
        a.flat[2] = -c.np.inf
    return c.wrap(a)


# ---- shape operations with parameters ---------------------------------------------------------------------
def _last(c):
    return len(c.sh) - 1


G("reshape", "np.reshape",
  pos=lambda c: c.f(c.A(), (-1,)),
  kw=lambda c: c.f(c.A((2, 3)), shape=(3, 2)),
  order=lambda c: c.f(c.A((2, 3)), (3, 2), order="F"))
G("transpose", "np.transpose np.permute_dims",
  axes=lambda c: c.f(c.A((2, 3)), (1, 0)),
  axes3=lambda c: c.f(c.A((2, 2, 2)), axes=(2, 0, 1)))
G("swap", "np.swapaxes", pos=lambda c: c.f(c.A((2, 3)), 0, 1), d3=lambda c: c.f(c.A((2, 2, 2)), 0, 2))
G("moveaxis", "np.moveaxis np.rollaxis", pos=lambda c: c.f(c.A((2, 3)), 0, 1) if c.fn == "np.moveaxis" else c.f(c.A((2, 3)), 1), d3=lambda c: c.f(c.A((2, 2, 2)), 2, 0))
G("expand", "np.expand_dims", pos=lambda c: c.f(c.A(), 0), last=lambda c: c.f(c.A(), axis=-1))
G("repeat", "np.repeat", pos=lambda c: c.f(c.A(), 2), axis=lambda c: c.f(c.A(), 2, axis=0), arr=lambda c: c.f(c.A((3,)), [1, 0, 2]))
G("tile", "np.tile", pos=lambda c: c.f(c.A(), 2), two=lambda c: c.f(c.A(), (2, 1)))
G("roll", "np.roll", pos=lambda c: c.f(c.A(), 1), axis=lambda c: c.f(c.A(), -1, axis=0), two=lambda c: c.f(c.A((2, 3)), (1, 1), axis=(0, 1)))
G("rot90", "np.rot90", pos=lambda c: c.f(c.A((2, 3))), k=lambda c: c.f(c.A((2, 3)), 3), axes=lambda c: c.f(c.A((2, 2, 2)), 1, (1, 2)))
G("resize", "np.resize", pos=lambda c: c.f(c.A(), (2, 4)), small=lambda c: c.f(c.A(), 2))
G("bcast_to", "np.broadcast_to", pos=lambda c: c.f(c.A(), (2,) + c.sh), subok=lambda c: c.f(c.A(), (2,) + c.sh, subok=True))
G("bcast_arrays", "np.broadcast_arrays", pos=lambda c: c.f(c.A((2, 1)), c.A((3,))), subok=lambda c: c.f(c.A((2, 1)), c.A((1, 3)), subok=True))
G("meshgrid", "np.meshgrid", pos=lambda c: c.f(c.A((3,)), c.A((2,))), ij=lambda c: c.f(c.A((3,)), c.A((2,)), indexing="ij"), sparse=lambda c: c.f(c.A((3,)), c.A((2,)), sparse=True))
G("split", "np.split np.array_split", pos=lambda c: c.f(c.A((4, 2)), 2), idx=lambda c: c.f(c.A((4,)), [1, 3]), axis=lambda c: c.f(c.A((2, 4)), 2, axis=1))
G("hvsplit", "np.hsplit np.vsplit", pos=lambda c: c.f(c.A((4, 4)), 2), idx=lambda c: c.f(c.A((4, 4)), [1]))
G("dsplit", "np.dsplit", pos=lambda c: c.f(c.A((2, 2, 2)), 2))
G("unstack", "np.unstack", pos=lambda c: c.f(c.A((2, 3))), axis=lambda c: c.f(c.A((2, 3)), axis=1))
G("astype", "np.astype", f4=lambda c: c.f(c.A(), c.np.float32), i8=lambda c: c.f(c.A(dt="f"), c.np.int64), nocopy=lambda c: c.f(c.A(), c.np.float64, copy=False))

# ---- merging lists ----------------------------------------------------------------------------------------
def _two(c, shape=None, **kw):
    return [c.A(shape, **kw), c.A(shape, **kw)]


G("concat", "np.concatenate np.concat",
  pos=lambda c: c.f(_two(c)),
  three=lambda c: c.f([c.A((2,)), c.A((3,)), c.A((1,))]),
  axis1=lambda c: c.f(_two(c, (2, 3)), axis=1),
  axpos=lambda c: c.f(_two(c, (2, 3)), 1),
  axnone=lambda c: c.f(_two(c, (2, 3)), axis=None),
  out=lambda c: c.f(_two(c, (2, 3)), axis=0, out=c.OUT((4, 3), fill=False)),
  outpos=lambda c: c.f(_two(c, (2, 3)), 1, c.OUT((2, 6), fill=False)),
  dtype=lambda c: c.f(_two(c, (2, 3)), dtype=c.np.float32),
  casting=lambda c: c.f(_two(c, (3,), dt="f"), dtype=c.np.int64, casting="unsafe"))
G("stack", "np.stack",
  pos=lambda c: c.f(_two(c)),
  axis1=lambda c: c.f(_two(c, (2, 3)), axis=1),
  axm1=lambda c: c.f(_two(c, (2, 3)), -1),
  out=lambda c: c.f(_two(c, (3,)), axis=0, out=c.OUT((2, 3), fill=False)),
  outax=lambda c: c.f(_two(c, (3,)), axis=1, out=c.OUT((3, 2), fill=False)),
  dtype=lambda c: c.f(_two(c, (3,)), dtype=c.np.float32),
  casting=lambda c: c.f(_two(c, (3,), dt="f"), dtype=c.np.int64, casting="unsafe"))
G("vhstack", "np.vstack np.hstack",
  pos=lambda c: c.f(_two(c)),
  tup=lambda c: c.f(tuple(_two(c))),
  d2=lambda c: c.f([c.A((2, 3)), c.A((2, 3))]),
  dtype=lambda c: c.f(_two(c, (3,)), dtype=c.np.float32),
  casting=lambda c: c.f(_two(c, (3,), dt="f"), dtype=c.np.int64, casting="unsafe"))
G("dcstack", "np.dstack np.column_stack",
  pos=lambda c: c.f(_two(c)),
  d2=lambda c: c.f([c.A((2, 3)), c.A((2, 3))]),
  mixed=lambda c: c.f([c.A((3,)), c.A((3, 2))] if c.fn == "np.column_stack" else [c.A((3,)), c.A((1, 3))]))
G("block", "np.block",
  flat=lambda c: c.f(_two(c, (3,))),
  nested=lambda c: c.f([[c.A((2, 2)), c.A((2, 1))], [c.A((1, 2)), c.A((1, 1))]]),
  single=lambda c: c.f(c.A((2, 2))))
G("append", "np.append",
  pos=lambda c: c.f(c.A(), c.A()),
  axis0=lambda c: c.f(c.A((2, 3)), c.A((1, 3)), axis=0))

# ---- products of two operands -----------------------------------------------------------------------------
def _ab(c, sa=None, sb=None):
    return c.A(sa), c.A(sb if sb is not None else sa, u="s")


G("dot", "np.dot",
  pos=lambda c: c.f(*_ab(c, (3,))),
  mv=lambda c: c.f(*_ab(c, (2, 3), (3,))),
  mm=lambda c: c.f(*_ab(c, (2, 3), (3, 2))),
  sc=lambda c: c.f(c.A((2, 3)), c.Q(u="s")),
  out=lambda c: c.f(*_ab(c, (2, 3), (3, 2)), out=c.OUT((2, 2), u="km*s", fill=False)),
  outpos=lambda c: c.f(*_ab(c, (2, 3), (3, 2)), c.OUT((2, 2), u="km*s", fill=False)),
  bare=lambda c: c.f(c.A((2, 3)), c.raw((3,))))
G("prod2", "np.vdot np.inner np.outer np.kron np.linalg.outer np.convolve np.correlate np.linalg.vecdot np.tensordot np.linalg.tensordot",
  pos=lambda c: c.f(c.A((3,)), c.A((4 if c.fn.split(".")[-1] in ("outer", "kron", "convolve", "correlate") else 3,), u="s")),
  bare=lambda c: c.f(c.A((3,)), c.raw((3,))),
  rbare=lambda c: c.f(c.raw((3,)), c.A((3,))))
G("prod2m", "np.inner np.kron np.vdot np.outer np.linalg.matmul np.linalg.vecdot",
  mm=lambda c: c.f(c.A((2, 3)), c.A((2, 3) if c.fn.split(".")[-1] != "matmul" else (3, 2), u="s")))
G("outer", "np.outer", out=lambda c: c.f(c.A((3,)), c.A((2,), u="s"), out=c.OUT((3, 2), u="km*s", fill=False)))
G("conv", "np.convolve np.correlate",
  same=lambda c: c.f(c.A((4,)), c.A((3,), u="s"), "same"),
  valid=lambda c: c.f(c.A((4,)), c.A((2,), u="s"), mode="valid"),
  full=lambda c: c.f(c.A((2,)), c.A((4,), u="s"), mode="full"))
G("tensordot", "np.tensordot np.linalg.tensordot",
  ax1=lambda c: c.f(c.A((2, 3)), c.A((3, 2), u="s"), axes=1),
  ax0=lambda c: c.f(c.A((2,)), c.A((3,), u="s"), axes=0),
  axpair=lambda c: c.f(c.A((2, 3)), c.A((2, 3), u="s"), axes=([0], [0])),
  ax2=lambda c: c.f(c.A((2, 3)), c.A((2, 3), u="s")))
G("cross", "np.cross np.linalg.cross",
  pos=lambda c: c.f(c.A((3,)), c.A((3,), u="s")),
  stack=lambda c: c.f(c.A((2, 3)), c.A((2, 3), u="s")),
  axis=lambda c: c.f(c.A((3, 2)), c.A((3, 2), u="s"), axis=0))
G("cross2", "np.cross", axabc=lambda c: c.f(c.A((3, 2)), c.A((2, 3), u="s"), axisa=0, axisb=1))
G("multi_dot", "np.linalg.multi_dot", pos=lambda c: c.f([c.A((2, 3)), c.A((3, 3), u="s"), c.A((3, 2))]))
G("einsum", "np.einsum",
  trace=lambda c: c.f("ii", c.A((3, 3))),
  mm=lambda c: c.f("ij,jk->ik", c.A((2, 3)), c.A((3, 2))),
  inner=lambda c: c.f("i,i", c.A((3,)), c.A((3,))),
  out=lambda c: c.f("ij,jk->ik", c.A((2, 3)), c.A((3, 2)), out=c.OUT((2, 2), fill=False)),
  dtype=lambda c: c.f("i,i->i", c.A((3,)), c.A((3,)), dtype=c.np.float32, casting="unsafe"),
  opt=lambda c: c.f("ij,jk,kl->il", c.A((2, 3)), c.A((3, 3)), c.A((3, 2)), optimize=True),
  tr=lambda c: c.f("ij->ji", c.A((2, 3))))
G("einsum_path", "np.einsum_path", pos=lambda c: c.f("ij,jk->ik", c.A((2, 3)), c.A((3, 2)))[0])

# ---- comparisons / sets -----------------------------------------------------------------------------------
def _near(c, rtol=1e-5, atol=1e-8):
    """operand pair of a closeness test with tolerances (rtol, atol); data class "band": element by element the second
    operand lies just outside the first's tolerance away from zero (close only in the order (a, b)), just inside it
    towards zero (close only in the order (b, a)), is equal, or far away"""
    np = c.np
    a = c.raw()
    x = c.wrap(a)

    def other():
        b = a.copy()
        if c.dc == "band" and b.dtype.kind == "f":
            rt, at = c.extra.get("rtol", rtol), c.extra.get("atol", atol)
            d = at + rt * np.abs(a)  # NumPy's threshold with a as the SECOND operand
            k = np.arange(a.size).reshape(a.shape) % 4
            sg = np.where(a >= 0, 1.0, -1.0)
            b = np.where(k == 0, a + sg * d * (1 + rt / 2), np.where(k == 1, a - sg * d * (1 - rt / 2), np.where(k == 2, a, a + 3 * d + 1)))
        elif b.size and b.dtype.kind != "i":
            b.flat[0] += 1e-9
        return c.wrap(b)

    return x, c.second(x, other)


G("close", "np.isclose np.allclose",
  pos=lambda c: c.f(*_near(c)),
  tol=lambda c: c.f(*_near(c, 0.0, 1e-12), 0.0, 1e-12),
  tolkw=lambda c: c.f(*_near(c, 1e-12, 0.0), rtol=1e-12, atol=0.0),
  loose=lambda c: c.f(*_near(c, 0.25, 0.0), 0.25, 0.0),
  loosekw=lambda c: c.f(*_near(c, 0.0625, 0.5), atol=0.5, rtol=0.0625),
  nan=lambda c: (lambda a: c.f(a, c.second(a, lambda: _with_nan(c)), equal_nan=True))(_with_nan(c)))
G("aeq", "np.array_equal np.array_equiv",
  pos=lambda c: c.f(*_near(c)),
  same=lambda c: (lambda a: c.f(a, c.second(a, a.copy)))(c.A()))
G("aeq2", "np.array_equal", nan=lambda c: (lambda a: c.f(a, c.second(a, lambda: _with_nan(c)), equal_nan=True))(_with_nan(c)))
G("set2", "np.union1d np.intersect1d np.setdiff1d np.setxor1d np.isin",
  pos=lambda c: c.f(c.A((4,), lo=-2, hi=2), c.A((3,), lo=-2, hi=2)))
G("set_au", "np.intersect1d np.setdiff1d np.setxor1d np.isin",
  au=lambda c: c.f(c.A((4,), uniq=True), c.A((3,), uniq=True), assume_unique=True))
G("intersect", "np.intersect1d", ri=lambda c: c.f(c.A((4,), lo=-2, hi=2), c.A((3,), lo=-2, hi=2), return_indices=True))
G("isin", "np.isin",
  invert=lambda c: c.f(c.A((2, 3), lo=-2, hi=2), c.A((3,), lo=-2, hi=2), invert=True),
  kind=lambda c: c.f(c.A((4,), lo=-2, hi=2), c.A((3,), lo=-2, hi=2), kind="sort"))

# ---- ranges -----------------------------------------------------------------------------------------------
G("linspace", "np.linspace",
  pos=lambda c: c.f(c.Q(), c.Q()),
  num=lambda c: c.f(c.Q(), c.Q(), 5),
  noend=lambda c: c.f(c.Q(), c.Q(), num=4, endpoint=False),
  retstep=lambda c: c.f(c.Q(), c.Q(), 4, retstep=True),
  dtype=lambda c: c.f(c.Q(), c.Q(), 4, dtype=c.np.float32),
  axis=lambda c: c.f(c.A((2,)), c.A((2,)), 3, axis=1),
  arr=lambda c: c.f(c.A((2,)), c.A((2,)), 3))
G("geomspace", "np.geomspace",
  pos=lambda c: c.f(c.Q(pos=True), c.Q(pos=True)),
  num=lambda c: c.f(c.Q(pos=True), c.Q(pos=True), 4),
  noend=lambda c: c.f(c.Q(pos=True), c.Q(pos=True), num=4, endpoint=False))
G("logspace", "np.logspace",
  base=lambda c: c.f(c.raw(()), c.raw(()), 4, base=c.Q(pos=True)),
  noend=lambda c: c.f(0.0, 2.0, num=3, endpoint=False, base=c.Q(pos=True)))

# ---- in-place writers -------------------------------------------------------------------------------------
G("copyto", "np.copyto",
  pos=lambda c: c.f(c.OUT((2, 3)), c.A((2, 3))),
  bcast=lambda c: c.f(c.OUT((2, 3)), c.A((3,))),
  where=lambda c: c.f(c.OUT((2, 3)), c.A((2, 3)), where=c.B((2, 3))),
  casting=lambda c: c.f(c.OUT((3,), dt="i"), c.A((3,), dt="f"), casting="unsafe"))
G("fill_diagonal", "np.fill_diagonal",
  pos=lambda c: c.f(c.OUT((3, 3)), c.Q()),
  bare=lambda c: c.f(c.OUT((3, 3)), 2),
  wrap=lambda c: c.f(c.OUT((5, 2)), c.Q(), wrap=True),
  wrappos=lambda c: c.f(c.OUT((5, 2)), c.Q(), True),
  arr=lambda c: c.f(c.OUT((3, 3)), c.A((3,))))
G("put", "np.put",
  pos=lambda c: c.f(c.OUT((4,)), [0, 2], c.A((2,))),
  bare=lambda c: c.f(c.OUT((4,)), [1], 3),
  clip=lambda c: c.f(c.OUT((4,)), [1, 3], c.A((2,)), mode="clip"),
  wrapin=lambda c: c.f(c.OUT((4,)), [-1], c.A((1,)), mode="wrap"))
G("place", "np.place", pos=lambda c: c.f(c.OUT((4,)), c.np.array([True, False, True, True]), c.A((2,))))
G("putmask", "np.putmask",
  pos=lambda c: c.f(c.OUT((4,)), c.np.array([True, False, True, True]), c.A((4,))),
  short=lambda c: c.f(c.OUT((4,)), c.np.array([True, False, True, True]), c.A((2,))))
G("put_along", "np.put_along_axis",
  pos=lambda c: c.f(c.OUT((2, 3)), c.np.array([[0], [2]]), c.A((2, 1)), 1),
  kw=lambda c: c.f(c.OUT((2, 3)), c.np.array([[1, 0, 1]]), c.A((1, 3)), axis=0))

# ---- selection --------------------------------------------------------------------------------------------
G("where", "np.where",
  one=lambda c: c.f(c.A()),
  three=lambda c: c.f(c.B(), c.A(), c.A()),
  bc=lambda c: c.f(c.B((2, 3)), c.A((2, 3)), c.Q()))
G("choose", "np.choose",
  pos=lambda c: c.f(c.I((4,), 0, 1), [c.A((4,)), c.A((4,))]),
  out=lambda c: c.f(c.I((4,), 0, 1), [c.A((4,)), c.A((4,))], out=c.OUT((4,), fill=False)),
  outpos=lambda c: c.f(c.I((4,), 0, 1), [c.A((4,)), c.A((4,))], c.OUT((4,), fill=False)),
  mode=lambda c: c.f(c.I((4,), 0, 3), [c.A((4,)), c.A((4,))], mode="wrap"),
  modeclip=lambda c: c.f(c.I((4,), -1, 3), [c.A((4,)), c.A((4,))], None, "clip"))
G("select", "np.select",
  pos=lambda c: c.f([c.B((4,)), c.B((4,))], [c.A((4,)), c.A((4,))]),
  default=lambda c: c.f([c.B((4,)), c.B((4,))], [c.A((4,)), c.A((4,))], 7),
  defkw=lambda c: c.f([c.B((4,)), c.B((4,))], [c.A((4,)), c.A((4,))], default=c.Q()))
G("clip", "np.clip",
  pos=lambda c: c.f(c.A(), c.Q(lo=-4, hi=-1), c.Q(lo=1, hi=4)),
  bare=lambda c: c.f(c.A(), -1, 1),
  kw=lambda c: c.f(c.A(), a_min=c.Q(lo=-4, hi=-1), a_max=c.Q(lo=1, hi=4)),
  minonly=lambda c: c.f(c.A(), c.Q(lo=-4, hi=-1), None),
  maxonly=lambda c: c.f(c.A(), None, c.Q(lo=1, hi=4)),
  newkw=lambda c: c.f(c.A(), min=c.Q(lo=-4, hi=-1), max=c.Q(lo=1, hi=4)),
  arr=lambda c: c.f(c.A(), c.A(lo=-4, hi=-1), c.A(lo=1, hi=4)),
  out=lambda c: c.f(c.A(), c.Q(lo=-4, hi=-1), c.Q(lo=1, hi=4), out=c.OUT(c.sh, fill=False)),
  outpos=lambda c: c.f(c.A(), c.Q(lo=-4, hi=-1), c.Q(lo=1, hi=4), c.OUT(c.sh, fill=False)))
G("take", "np.take",
  pos=lambda c: c.f(c.A((4,)), [0, 2, 2]),
  scalar=lambda c: c.f(c.A((4,)), 1),
  axis=lambda c: c.f(c.A((2, 3)), [2, 0], axis=1),
  axpos=lambda c: c.f(c.A((2, 3)), [1], 0),
  flat=lambda c: c.f(c.A((2, 3)), [[0, 5], [2, 2]]),
  out=lambda c: c.f(c.A((4,)), [0, 2], out=c.OUT((2,), fill=False)),
  wrap=lambda c: c.f(c.A((4,)), [5, -1], mode="wrap"),
  clipm=lambda c: c.f(c.A((4,)), [5, -7], mode="clip"))
G("take_along", "np.take_along_axis",
  pos=lambda c: c.f(c.A((2, 3)), c.np.array([[0, 2], [1, 1]]), 1),
  kw=lambda c: c.f(c.A((2, 3)), c.np.array([[1, 0, 1]]), axis=0))
G("insert", "np.insert",
  pos=lambda c: c.f(c.A((4,)), 1, c.Q()),
  bare=lambda c: c.f(c.A((4,)), 1, 2),
  arr=lambda c: c.f(c.A((4,)), [1, 3], c.A((2,))),
  axis=lambda c: c.f(c.A((2, 3)), 1, c.A((2,)), axis=1),
  axpos=lambda c: c.f(c.A((2, 3)), 0, c.A((3,)), 0))
G("delete", "np.delete",
  pos=lambda c: c.f(c.A((4,)), 1),
  lst=lambda c: c.f(c.A((4,)), [0, 2]),
  axis=lambda c: c.f(c.A((2, 3)), 1, axis=1))
G("compress", "np.compress",
  pos=lambda c: c.f([True, False, True], c.A((3,))),
  axis=lambda c: c.f([False, True], c.A((2, 3)), axis=0),
  out=lambda c: c.f([True, False, True], c.A((3,)), out=c.OUT((2,), fill=False)))
G("extract", "np.extract", pos=lambda c: c.f(c.B((2, 3)), c.A((2, 3))))
G("searchsorted", "np.searchsorted",
  pos=lambda c: c.f(c.A((4,), srt=True, lo=-3, hi=3), c.A((3,), lo=-3, hi=3)),
  scalar=lambda c: c.f(c.A((4,), srt=True, lo=-3, hi=3), c.Q(lo=-3, hi=3)),
  bare=lambda c: c.f(c.A((4,), srt=True, lo=-3, hi=3), 1),
  right=lambda c: c.f(c.A((4,), srt=True, lo=-1, hi=1), c.A((3,), lo=-1, hi=1), side="right"),
  rightpos=lambda c: c.f(c.A((4,), srt=True, lo=-1, hi=1), c.A((3,), lo=-1, hi=1), "right"),
  sorter=lambda c: (lambda a: c.f(a, c.A((3,), lo=-3, hi=3), sorter=c.np.argsort(c.np.asarray(a))))(c.A((4,), lo=-3, hi=3)))
G("digitize", "np.digitize",
  pos=lambda c: c.f(c.A((4,), lo=-3, hi=3), c.A((3,), srt=True, uniq=True, lo=-3, hi=3)),
  right=lambda c: c.f(c.A((4,), lo=-1, hi=1), c.A((3,), srt=True, uniq=True, lo=-1, hi=1), right=True))
G("interp", "np.interp",
  pos=lambda c: c.f(c.A((4,), lo=-6, hi=6), c.A((3,), srt=True, uniq=True, lo=-4, hi=4), c.A((3,), u="s")),
  barefp=lambda c: c.f(c.A((4,), lo=-6, hi=6), c.A((3,), srt=True, uniq=True, lo=-4, hi=4), c.raw((3,))),
  lr=lambda c: c.f(c.A((4,), lo=-6, hi=6), c.A((3,), srt=True, uniq=True, lo=-4, hi=4), c.A((3,), u="s"), left=-9.0, right=9.0),
  lrpos=lambda c: c.f(c.A((4,), lo=-6, hi=6), c.A((3,), srt=True, uniq=True, lo=-4, hi=4), c.A((3,), u="s"), -9.0, 9.0),
  period=lambda c: c.f(c.A((4,), lo=-6, hi=6), c.A((3,), srt=True, uniq=True, lo=-4, hi=4), c.A((3,), u="s"), period=2.5))
G("pad", "np.pad",
  pos=lambda c: c.f(c.A(), 1),
  cv=lambda c: c.f(c.A(), (1, 2), constant_values=3),
  modepos=lambda c: c.f(c.A(), 2, "edge"),
  reflect=lambda c: c.f(c.A((4,)), (2, 1), mode="reflect"),
  linear=lambda c: c.f(c.A((3,)), 2, mode="linear_ramp", end_values=(1, 2)),
  stat=lambda c: c.f(c.A((2, 3)), ((1, 0), (0, 2)), mode="maximum", stat_length=2),
  wrapm=lambda c: c.f(c.A((2, 3)), 1, mode="wrap"))
G("diff", "np.diff",
  pos=lambda c: c.f(c.A()),
  n2=lambda c: c.f(c.A((4,)), 2),
  nkw=lambda c: c.f(c.A((4,)), n=3),
  axis0=lambda c: c.f(c.A((2, 3)), axis=0),
  axpos=lambda c: c.f(c.A((2, 3)), 1, 0),
  prepend=lambda c: c.f(c.A((3,)), prepend=c.Q()),
  append=lambda c: c.f(c.A((3,)), append=c.A((2,))))
G("ediff1d", "np.ediff1d",
  pos=lambda c: c.f(c.A()),
  ends=lambda c: c.f(c.A((4,)), to_end=c.A((2,)), to_begin=c.Q()),
  endspos=lambda c: c.f(c.A((4,)), c.A((2,))))
G("trapezoid", "np.trapezoid",
  pos=lambda c: c.f(c.A()),
  x=lambda c: c.f(c.A((4,)), c.A((4,), u="s", srt=True)),
  xkw=lambda c: c.f(c.A((4,)), x=c.A((4,), u="s", srt=True)),
  dx=lambda c: c.f(c.A((4,)), dx=c.Q(u="s", pos=True)),
  dxbare=lambda c: c.f(c.A((4,)), dx=0.5),
  dxpos=lambda c: c.f(c.A((4,)), None, 0.25),
  axis0=lambda c: c.f(c.A((3, 2)), axis=0),
  xaxis=lambda c: c.f(c.A((3, 2)), c.A((3,), u="s", srt=True), axis=0))
G("unwrap", "np.unwrap",
  pos=lambda c: c.f(c.A((4,), lo=-16, hi=16)),
  period=lambda c: c.f(c.A((4,), lo=-16, hi=16), period=2.0),
  discont=lambda c: c.f(c.A((4,), lo=-16, hi=16), discont=1.0, period=4.0),
  discpos=lambda c: c.f(c.A((4,), lo=-16, hi=16), 5.0),
  axis0=lambda c: c.f(c.A((3, 2), lo=-16, hi=16), axis=0))
G("gradient", "np.gradient",
  pos=lambda c: c.f(c.A((4,))),
  dx=lambda c: c.f(c.A((4,)), 0.5),
  coords=lambda c: c.f(c.A((4,)), c.A((4,), u="s", srt=True, uniq=True)),
  axis=lambda c: c.f(c.A((3, 3)), axis=0),
  edge2=lambda c: c.f(c.A((4,)), edge_order=2))
G("bincount", "np.bincount",
  w=lambda c: c.f(c.I((5,), 0, 3), weights=c.A((5,))),
  wmin=lambda c: c.f(c.I((5,), 0, 3), c.A((5,)), 6))
G("hist", "np.histogram",
  pos=lambda c: c.f(c.A((6,))),
  bins=lambda c: c.f(c.A((6,)), 4),
  edges=lambda c: c.f(c.A((6,)), bins=c.A((4,), srt=True, uniq=True)),
  range=lambda c: c.f(c.A((6,)), 3, (c.Q(lo=-8, hi=-4), c.Q(lo=4, hi=8))),
  rangekw=lambda c: c.f(c.A((6,)), bins=3, range=(-1.0, 1.0)),
  density=lambda c: c.f(c.A((6,)), 3, density=True),
  weights=lambda c: c.f(c.A((6,)), 3, weights=c.A((6,), u="s")),
  wbare=lambda c: c.f(c.A((6,)), 3, None, None, c.raw((6,))),
  dw=lambda c: c.f(c.A((6,)), 3, density=True, weights=c.A((6,), u="s", pos=True)))
G("hist2d", "np.histogram2d",
  pos=lambda c: c.f(c.A((6,)), c.A((6,), u="s")),
  bins=lambda c: c.f(c.A((6,)), c.A((6,), u="s"), (2, 3)),
  density=lambda c: c.f(c.A((6,)), c.A((6,), u="s"), 2, density=True),
  weights=lambda c: c.f(c.A((6,)), c.A((6,), u="s"), bins=2, weights=c.A((6,), u="g")),
  range=lambda c: c.f(c.A((6,)), c.A((6,), u="s"), 2, [c.Q(lo=-8, hi=-4), c.Q(lo=4, hi=8), c.Q(u="s", lo=-8, hi=-4), c.Q(u="s", lo=4, hi=8)]))
G("histdd", "np.histogramdd",
  pos=lambda c: c.f((c.A((6,)), c.A((6,), u="s"))),
  bins=lambda c: c.f((c.A((6,)), c.A((6,), u="s")), (2, 3)),
  density=lambda c: c.f((c.A((6,)), c.A((6,), u="s")), 2, density=True),
  weights=lambda c: c.f((c.A((6,)), c.A((6,), u="s")), bins=2, weights=c.A((6,), u="g")))
G("hist_edges", "np.histogram_bin_edges",
  pos=lambda c: c.f(c.A((6,))),
  bins=lambda c: c.f(c.A((6,)), 4),
  auto=lambda c: c.f(c.A((6,)), bins="auto"),
  range=lambda c: c.f(c.A((6,)), 3, (-1.0, 1.0)))
G("pctl", "np.percentile np.nanpercentile",
  pos=lambda c: c.f(c.A(), 50),
  qarr=lambda c: c.f(c.A(), [25, 75]),
  axis0=lambda c: c.f(c.A(), 40, axis=0),
  axpos=lambda c: c.f(c.A(), 40, 0),
  method=lambda c: c.f(c.A(), 30, method="lower"),
  keep=lambda c: c.f(c.A(), 30, axis=0, keepdims=True),
  out=lambda c: c.f(c.A(), 30, axis=0, out=c.OUT(c.red_shape(0), dt="f", fill=False)))
G("qtl", "np.quantile np.nanquantile",
  pos=lambda c: c.f(c.A(), 0.5),
  qarr=lambda c: c.f(c.A(), [0.25, 0.75]),
  axis0=lambda c: c.f(c.A(), 0.4, axis=0),
  axpos=lambda c: c.f(c.A(), 0.4, 0),
  method=lambda c: c.f(c.A(), 0.3, method="higher"),
  keep=lambda c: c.f(c.A(), 0.3, axis=0, keepdims=True),
  out=lambda c: c.f(c.A(), 0.3, axis=0, out=c.OUT(c.red_shape(0), dt="f", fill=False)))
G("cov", "np.cov np.corrcoef",
  pos=lambda c: c.f(c.A((2, 4))),
  xy=lambda c: c.f(c.A((4,)), c.A((4,))),
  rowvar=lambda c: c.f(c.A((4, 2)), rowvar=False))
G("cov2", "np.cov", ddof=lambda c: c.f(c.A((2, 4)), ddof=0), bias=lambda c: c.f(c.A((2, 4)), bias=True))

# ---- linear algebra ---------------------------------------------------------------------------------------
G("la1", "np.linalg.det np.linalg.inv np.linalg.pinv np.linalg.eig np.linalg.eigvals np.linalg.svd np.linalg.norm np.linalg.cond np.linalg.matrix_norm np.linalg.matrix_rank np.linalg.qr np.linalg.slogdet np.linalg.svdvals",
  pos=lambda c: c.f(c.M()),
  stack=lambda c: c.f(c.wrap(c.np.stack([c.M(2, u=None), c.M(2, u=None)]))))
G("la_sym", "np.linalg.eigh np.linalg.eigvalsh np.linalg.cholesky",
  pos=lambda c: c.f(c.M(spd=True)),
  upper=lambda c: c.f(c.M(spd=True), UPLO="U") if "eig" in c.fn else c.f(c.M(spd=True), upper=True))
G("svd", "np.linalg.svd",
  nouv=lambda c: c.f(c.M(), compute_uv=False),
  nouvpos=lambda c: c.f(c.M(), True, False),
  notfull=lambda c: c.f(c.wrap(c.raw((3, 2))), full_matrices=False),
  notfullpos=lambda c: c.f(c.wrap(c.raw((3, 2))), False),
  herm=lambda c: c.f(c.M(spd=True), hermitian=True))
G("norm", "np.linalg.norm",
  vec=lambda c: c.f(c.A((4,))),
  ord1=lambda c: c.f(c.A((4,)), 1),
  inf=lambda c: c.f(c.A((2, 3)), c.np.inf),
  axis=lambda c: c.f(c.A((2, 3)), axis=1),
  axkw=lambda c: c.f(c.A((2, 3)), ord=1, axis=0, keepdims=True),
  fro=lambda c: c.f(c.A((2, 3)), "fro"))
G("pinv", "np.linalg.pinv",
  rect=lambda c: c.f(c.wrap(c.raw((3, 2)))),
  rcond=lambda c: c.f(c.M(), rcond=0.5),
  herm=lambda c: c.f(c.M(spd=True), hermitian=True))
G("solve", "np.linalg.solve",
  vec=lambda c: c.f(c.M(), c.A((3,), u="s")),
  mat=lambda c: c.f(c.M(), c.A((3, 2), u="s")),
  bare=lambda c: c.f(c.M(), c.raw((3,))))
G("lstsq", "np.linalg.lstsq",
  pos=lambda c: c.f(c.wrap(c.raw((4, 2))), c.A((4,), u="s")),
  rcond=lambda c: c.f(c.wrap(c.raw((4, 2))), c.A((4,), u="s"), rcond=0.25),
  rcpos=lambda c: c.f(c.wrap(c.raw((4, 2))), c.A((4, 2), u="s"), None))
G("tensorinv", "np.linalg.tensorinv",
  pos=lambda c: c.f(c.wrap((c.np.eye(4) * 2 + c.raw((4, 4), dt="f" if c.dt == "i" else None) / 8).reshape(4, 2, 2))  , ind=1),
  ind2=lambda c: c.f(c.wrap((c.np.eye(4) * 2 + c.raw((4, 4), dt="f" if c.dt == "i" else None) / 8).reshape(2, 2, 4))))
G("tensorsolve", "np.linalg.tensorsolve",
  pos=lambda c: c.f(c.wrap((c.np.eye(4) * 2 + c.raw((4, 4), dt="f" if c.dt == "i" else None) / 8).reshape(2, 2, 2, 2)), c.A((2, 2), u="s")),
  axes=lambda c: c.f(c.wrap((c.np.eye(4) * 2 + c.raw((4, 4), dt="f" if c.dt == "i" else None) / 8).reshape(2, 2, 2, 2)), c.A((2, 2), u="s"), axes=(0, 1)))
G("matrix_power", "np.linalg.matrix_power", p2=lambda c: c.f(c.M(), 2), p0=lambda c: c.f(c.M(), 0), pm1=lambda c: c.f(c.M(), -1))
G("la_kw", "np.linalg.matrix_norm np.linalg.vector_norm np.linalg.cond",
  ord1=lambda c: c.f(c.M(), 1) if c.fn.endswith("cond") else c.f(c.M(), ord=1))
G("qr", "np.linalg.qr", r=lambda c: c.f(c.M(), mode="r"), complete=lambda c: c.f(c.wrap(c.raw((3, 2))), "complete"))
G("rank", "np.linalg.matrix_rank", tol=lambda c: c.f(c.M(), tol=0.5), herm=lambda c: c.f(c.M(spd=True), hermitian=True))

# ---- fft --------------------------------------------------------------------------------------------------
G("fft1", "np.fft.fft np.fft.ifft np.fft.rfft np.fft.irfft np.fft.hfft np.fft.ihfft",
  pos=lambda c: c.f(c.A((4,))),
  n=lambda c: c.f(c.A((4,)), 6),
  nkw=lambda c: c.f(c.A((4,)), n=3),
  axis=lambda c: c.f(c.A((2, 4)), axis=0),
  axpos=lambda c: c.f(c.A((2, 4)), None, 0),
  norm=lambda c: c.f(c.A((4,)), norm="ortho"),
  fwd=lambda c: c.f(c.A((4,)), None, -1, "forward"))
G("fftn", "np.fft.fft2 np.fft.ifft2 np.fft.rfft2 np.fft.irfft2 np.fft.fftn np.fft.ifftn np.fft.rfftn np.fft.irfftn",
  pos=lambda c: c.f(c.A((2, 4))),
  s=lambda c: c.f(c.A((2, 4)), (2, 2)),
  axes=lambda c: c.f(c.A((2, 4)), axes=(1, 0)),
  saxes=lambda c: c.f(c.A((2, 4)), s=(4, 2), axes=(0, 1)),
  norm=lambda c: c.f(c.A((2, 4)), norm="ortho"))
G("fftshift", "np.fft.fftshift np.fft.ifftshift", axes=lambda c: c.f(c.A((2, 3)), axes=(1,)), axpos=lambda c: c.f(c.A((2, 3)), 0))

# ---- misc -------------------------------------------------------------------------------------------------
G("apply_along", "np.apply_along_axis",
  sum=lambda c: c.f(c.np.sum, 0, c.A((2, 3))),
  sort=lambda c: c.f(c.np.sort, 1, c.A((2, 3))))
G("apply_over", "np.apply_over_axes",
  sum=lambda c: c.f(c.np.sum, c.A((2, 3)), [0]),
  two=lambda c: c.f(c.np.sum, c.A((2, 2, 2)), [0, 2]))
G("types", "np.can_cast np.result_type np.may_share_memory np.shares_memory",
  pos=lambda c: c.f(c.A(), c.np.float64) if c.fn == "np.can_cast" else c.f(c.A(), c.A()))
G("share_self", "np.may_share_memory np.shares_memory", self=lambda c: (lambda a: c.f(a, a[1:]))(c.A((4,))))
G("ravel_multi", "np.ravel_multi_index", pos=lambda c: c.f((c.wrap(c.np.array([1, 0])), c.wrap(c.np.array([2, 1]))), (2, 3)))
G("unravel", "np.unravel_index", pos=lambda c: c.f(c.wrap(c.np.array([1, 5])), (2, 3)))
G("text", "np.array_str np.array_repr np.array2string", pos=lambda c: c.f(c.A()))
G("save", "np.save np.savez np.savez_compressed np.savetxt",
  pos=lambda c: _save(c))
G("unsup", "np.busday_count np.busday_offset np.datetime_as_string np.is_busday np.ix_ np.packbits np.piecewise np.poly np.polyadd np.polyder np.polydiv np.polyfit np.polyint np.polymul np.polysub np.polyval np.roots np.unpackbits np.vander",
  call=lambda c: c.f(c.A((3,)), c.A((3,))) if c.fn.split(".")[-1] in ("polyadd", "polydiv", "polymul", "polysub", "polyval", "ix_", "busday_count", "busday_offset") else (c.f(c.A((3,)), c.A((3,)), 1) if c.fn == "np.polyfit" else (c.f(c.A((3,)), [[True, False, True]], [1]) if c.fn == "np.piecewise" else c.f(c.A((3,))))))


def _save(c):
    import io

    np = c.np
    buf = io.BytesIO()
    a = c.A((2, 3))
    if c.fn == "np.savetxt":
        c.f(buf, a)
        return buf.getvalue().decode()
    if c.fn == "np.save":
        c.f(buf, a)
        buf.seek(0)
        return np.load(buf)
    c.f(buf, a, b=a)
    buf.seek(0)
    z = np.load(buf)
    return [z["arr_0"], z["b"]]


# ---- ndarray methods --------------------------------------------------------------------------------------
def M(name, **templates):
    G("nd." + name, "nd." + name, **templates)


def _m(c, *a, **k):
    return c.call(c.X(), *a, **k)


for _n in "all any argmax argmin max min mean prod sum std var cumsum cumprod".split():
    M(_n, pos=lambda c: _m(c), axis0=lambda c: _m(need1(c), axis=0), axpos=lambda c: _m(need1(c), 0))
for _n in "max min mean prod sum std var any all".split():
    TT[("nd." + _n, "keep")] = lambda c: _m(c, axis=-1, keepdims=True)
    TT[("nd." + _n, "out")] = lambda c: _m(c, axis=0, out=c.OUT(c.red_shape(0), dt=("b" if c.meth in ("any", "all") else c.fo), u=None if c.meth in ("any", "all") else "km", fill=False))
for _n in "std var".split():
    TT[("nd." + _n, "ddof")] = lambda c: _m(c, axis=0, ddof=1)
for _n in "conj conjugate copy flatten ravel nonzero tolist squeeze transpose argsort byteswap item".split():
    M(_n, pos=lambda c: _m(c))
M("T", pos=lambda c: c.X().T)
M("mT", pos=lambda c: c.X().mT)
M("real", pos=lambda c: c.X().real)
M("imag", pos=lambda c: c.X().imag)
M("flat", pos=lambda c: list(c.X().flat), idx=lambda c: c.X().flat[1])
M("size", pos=lambda c: c.X().size)
M("shape", pos=lambda c: c.X().shape)
M("ndim", pos=lambda c: c.X().ndim)
M("nbytes", pos=lambda c: c.X().nbytes)
M("itemsize", pos=lambda c: c.X().itemsize)
TT[("nd.argsort", "axis0")] = lambda c: _m(c, axis=0)
TT[("nd.argsort", "axpos")] = lambda c: _m(c, 0, "stable")
TT[("nd.argsort", "kind")] = lambda c: _m(c, kind="stable")
TT[("nd.copy", "order")] = lambda c: _m(c, order="F")
TT[("nd.copy", "orderpos")] = lambda c: _m(c, "F")
TT[("nd.flatten", "order")] = lambda c: _m(c, "F")
TT[("nd.ravel", "order")] = lambda c: _m(c, order="F")
TT[("nd.transpose", "axes")] = lambda c: c.call(c.A((2, 3)), 1, 0)
TT[("nd.squeeze", "axis")] = lambda c: c.call(c.A((1, 3)), axis=0)
M("argpartition", kth=lambda c: c.np.asarray(getattr(c.A(uniq=True), "argpartition")(1))[..., 1])
M("partition", kth=lambda c: (lambda a: (a.partition(1), c.np.asarray(a)[..., 1])[1])(c.A(uniq=True)))
M("sort", pos=lambda c: (lambda a: (a.sort(), a)[1])(c.OUT(c.sh)), axis0=lambda c: (lambda a: (a.sort(axis=0), a)[1])(c.OUT(c.sh)))
M("fill", pos=lambda c: (lambda a: (a.fill(c.raw(()).item()), a)[1])(c.OUT(c.sh)))
M("astype", f4=lambda c: _m(c, "f4"), i8=lambda c: getattr(c.A(dt="f"), "astype")(c.np.int64), nocopy=lambda c: _m(c, c.X().dtype, copy=False))
M("view", pos=lambda c: _m(c), nd=lambda c: _m(c, c.np.ndarray))
M("choose", pos=lambda c: getattr(c.wrap(c.I((4,), 0, 1), "dimensionless"), "choose")([c.A((4,)), c.A((4,))]))
M("clip", pos=lambda c: _m(c, c.Q(lo=-4, hi=-1), c.Q(lo=1, hi=4)), bare=lambda c: _m(c, -1, 1), kw=lambda c: _m(c, min=c.Q(lo=-4, hi=-1)), out=lambda c: _m(c, c.Q(lo=-4, hi=-1), c.Q(lo=1, hi=4), out=c.OUT(c.sh, fill=False)))
M("compress", pos=lambda c: getattr(c.A((3,)), "compress")([True, False, True]), axis=lambda c: getattr(c.A((2, 3)), "compress")([False, True], axis=0))
M("diagonal", pos=lambda c: getattr(c.A((3, 3)), "diagonal")(), off=lambda c: getattr(c.A((3, 3)), "diagonal")(1), offkw=lambda c: getattr(c.A((2, 3)), "diagonal")(offset=-1))
M("trace", pos=lambda c: c.call(c.A((3, 3))), off=lambda c: c.call(c.A((3, 3)), 1), dtype=lambda c: c.call(c.A((3, 3)), dtype=c.np.float32))
M("dot", pos=lambda c: c.call(c.A((2, 3)), c.A((3, 2), u="s")), vec=lambda c: c.call(c.A((3,)), c.A((3,), u="s")), bare=lambda c: c.call(c.A((2, 3)), c.raw((3,))),
  out=lambda c: c.call(c.A((2, 3)), c.A((3, 2), u="s"), out=c.OUT((2, 2), u="km*s", fill=False)),
  outpos=lambda c: c.call(c.A((2, 3)), c.A((3, 2), u="s"), c.OUT((2, 2), u="km*s", fill=False)))
M("take", pos=lambda c: c.call(c.A((4,)), [0, 2, 2]), scalar=lambda c: c.call(c.A((4,)), 1), axis=lambda c: c.call(c.A((2, 3)), [2, 0], axis=1), axpos=lambda c: c.call(c.A((2, 3)), [1], 0),
  out=lambda c: c.call(c.A((4,)), [0, 2], out=c.OUT((2,), fill=False)), wrap=lambda c: c.call(c.A((4,)), [5, -1], mode="wrap"), clipm=lambda c: c.call(c.A((4,)), [5, -7], None, None, "clip"))
M("put", pos=lambda c: (lambda a: (a.put([0, 2], c.A((2,))), a)[1])(c.OUT((4,))), clip=lambda c: (lambda a: (a.put([9], c.A((1,)), mode="clip"), a)[1])(c.OUT((4,))))
M("repeat", pos=lambda c: _m(c, 2), axis=lambda c: _m(c, 2, axis=0))
M("reshape", pos=lambda c: _m(c, -1), tup=lambda c: c.call(c.A((2, 3)), (3, 2)), order=lambda c: c.call(c.A((2, 3)), 3, 2, order="F"))
M("resize", pos=lambda c: (lambda a: (a.resize((2, 2), refcheck=False), a)[1])(c.A((4,))))
M("round", pos=lambda c: _m(c), dec=lambda c: _m(c, 1), out=lambda c: _m(c, decimals=1, out=c.OUT(c.sh, dt=c.fo, fill=False)))
M("searchsorted", pos=lambda c: getattr(c.A((4,), srt=True, lo=-3, hi=3), "searchsorted")(c.A((3,), lo=-3, hi=3)), right=lambda c: getattr(c.A((4,), srt=True, lo=-1, hi=1), "searchsorted")(c.A((3,), lo=-1, hi=1), side="right"), rightpos=lambda c: getattr(c.A((4,), srt=True, lo=-1, hi=1), "searchsorted")(c.A((3,), lo=-1, hi=1), "right"))
M("swapaxes", pos=lambda c: getattr(c.A((2, 3)), "swapaxes")(0, 1))
M("getitem", idx=lambda c: c.A((4,))[1], sl=lambda c: c.A((4,))[1:3], fancy=lambda c: c.A((4,))[[0, 2, 2]], mask=lambda c: c.A((4,))[c.np.array([True, False, True, False])], d2=lambda c: c.A((2, 3))[1, ::2], ell=lambda c: c.A((2, 3))[..., 0], new=lambda c: c.A((3,))[None, :])
M("setitem", idx=lambda c: _set(c, 1, c.Q()), sl=lambda c: _set(c, slice(1, 3), c.A((2,))), mask=lambda c: _set(c, c.np.array([True, False, True, False]), c.Q()), bare=lambda c: _set(c, 0, 2))


def _set(c, key, val):
    a = c.OUT((4,))
    a[key] = val
    return a


# ---- keyword completeness ---------------------------------------------------------------------------------------
# value classes per keyword (names are stated in spec/ArrayFnNumCat.tla: KwVal); a class resolves to the kwargs
# injected into the base template's call.  Function-specific meanings (mode=, order=, ...) are resolved by KWF.
def _ax(c, v):
    return {"axis": v}


KWV = {
    "axis": {"0": lambda c: {"axis": 0}, "m1": lambda c: {"axis": -1}},
    "keepdims": {"T": lambda c: {"keepdims": True}},
    "ddof": {"1": lambda c: {"ddof": 1}},
    "correction": {"1": lambda c: {"correction": 1}},
    "kind": {"stable": lambda c: {"kind": "stable"}, "mergesort": lambda c: {"kind": "mergesort"}, "heapsort": lambda c: {"kind": "heapsort"}},
    "stable": {"T": lambda c: {"stable": True}},
    "descending": {"T": lambda c: {"descending": True}},
    "side": {"right": lambda c: {"side": "right"}},
    "dtype": {"f4": lambda c: {"dtype": c.np.float32}, "f8": lambda c: {"dtype": c.np.float64}},
    "casting": {"unsafe": lambda c: {"dtype": c.np.float32, "casting": "unsafe"}},
    "where": {"mask": lambda c: {"where": c.B()}},
    "initial": {"2": lambda c: {"initial": 2}},
    "decimals": {"1": lambda c: {"decimals": 1}, "m1": lambda c: {"decimals": -1}},
    "k": {"1": lambda c: {"k": 1}, "m1": lambda c: {"k": -1}},
    "offset": {"1": lambda c: {"offset": 1}, "m1": lambda c: {"offset": -1}},
    "axis1": {"1": lambda c: {"axis1": 1, "axis2": 0}},
    "axis2": {"0": lambda c: {"axis1": 1, "axis2": 0}},
    "n": {"2": lambda c: {"n": 2}, "5": lambda c: {"n": 5}},
    "prepend": {"q": lambda c: {"prepend": c.Q()}},
    "append": {"q": lambda c: {"append": c.Q()}},
    "to_end": {"q": lambda c: {"to_end": c.Q()}},
    "to_begin": {"q": lambda c: {"to_begin": c.Q()}},
    "num": {"5": lambda c: {"num": 5}},
    "endpoint": {"F": lambda c: {"endpoint": False}},
    "retstep": {"T": lambda c: {"retstep": True}},
    "base": {"2": lambda c: {"base": 2.0}},
    "equal_nan": {"T": lambda c: {"equal_nan": True}},
    "rtol": {"big": lambda c: {"rtol": 0.5}, "0": lambda c: {"rtol": 0.0}},
    "atol": {"0": lambda c: {"atol": 0.0}},
    "assume_unique": {"T": lambda c: {"assume_unique": True}},
    "return_indices": {"T": lambda c: {"return_indices": True}},
    "invert": {"T": lambda c: {"invert": True}},
    "density": {"T": lambda c: {"density": True}},
    "bins": {"4": lambda c: {"bins": 4}},
    "full_matrices": {"F": lambda c: {"full_matrices": False}},
    "compute_uv": {"F": lambda c: {"compute_uv": False}},
    "hermitian": {"T": lambda c: {"hermitian": True}},
    "UPLO": {"U": lambda c: {"UPLO": "U"}},
    "rcond": {"half": lambda c: {"rcond": 0.5}},
    "rtol_la": {},
    "ord": {"1": lambda c: {"ord": 1}, "inf": lambda c: {"ord": c.np.inf}},
    "norm": {"ortho": lambda c: {"norm": "ortho"}, "forward": lambda c: {"norm": "forward"}},
    "axes": {"0": lambda c: {"axes": 0}},
    "wrap": {"T": lambda c: {"wrap": True}},
    "left": {"9": lambda c: {"left": -9.0}},
    "right": {"9": lambda c: {"right": 9.0}},
    "period": {"p": lambda c: {"period": 2.5}},
    "discont": {"1": lambda c: {"discont": 1.0, "period": 4.0}},
    "method": {"lower": lambda c: {"method": "lower"}, "nearest": lambda c: {"method": "nearest"}},
    "dx": {"half": lambda c: {"dx": 0.5}},
    "optimize": {"T": lambda c: {"optimize": True}},
    "mode": {"alt1": None, "alt2": None},
    "order": {"F": lambda c: {"order": "F"}},
    "axisa": {"0": lambda c: {"axisa": 0, "axisb": 0, "axisc": 0}},
    "axisb": {"0": lambda c: {"axisa": 0, "axisb": 0}},
    "axisc": {"0": lambda c: {"axisc": 0}},
    "default": {"7": lambda c: {"default": 7}},
    "ind": {"1": lambda c: {"ind": 1}},
    "copy": {"F": lambda c: {"copy": False}},
    "nan": {"v": lambda c: {"nan": 1.5}},
    "posinf": {"v": lambda c: {"posinf": 7.0}},
    "neginf": {"v": lambda c: {"neginf": -7.0}},
    "weights": {"w": lambda c: {"weights": c.A((6,), u="s", pos=True)}},
    "range": {"r": lambda c: {"range": (-1.0, 1.0)}},
    "stat_length": {"2": lambda c: {"mode": "maximum", "stat_length": 2}},
    "constant_values": {"3": lambda c: {"constant_values": 3}},
    "end_values": {"e": lambda c: {"mode": "linear_ramp", "end_values": (1, 2)}},
    "reflect_type": {"odd": lambda c: {"mode": "reflect", "reflect_type": "odd"}},
    "indexing": {"ij": lambda c: {"indexing": "ij"}},
    "precision": {"2": lambda c: {"precision": 2}},
    "max_line_width": {"20": lambda c: {"max_line_width": 20}},
    "fmt": {"e": lambda c: {"fmt": "%.3e"}},
    "delimiter": {"c": lambda c: {"delimiter": ","}},
}
# function-specific meanings of mode=
_MODES = {
    "take": ("wrap", "clip"), "choose": ("wrap", "clip"), "put": ("wrap", "clip"),
    "convolve": ("same", "full"), "correlate": ("same", "full"), "pad": ("edge", "reflect"),
}


def _kwf(fn, kw, kv):
    short = fn.split(".")[-1]
    if kw == "mode":
        m = _MODES.get(short)
        if m is None:
            return None
        val = m[0] if kv == "alt1" else m[1]
        return lambda c: {"mode": val}
    if kw == "order" and short in ("argsort", "sort", "sort_complex", "partition", "argpartition"):
        return None  # field order of structured dtypes: not templated
    if kw == "axis" and short in ("fftshift", "ifftshift"):
        return None
    if kw == "axes" and fn.startswith("np.fft."):
        return lambda c: {"axes": (1, 0)}
    if kw == "kind" and short == "isin":
        return {"stable": (lambda c: {"kind": "sort"}), "mergesort": (lambda c: {"kind": "table"})}.get(kv)
    f = KWV.get(kw, {}).get(kv)
    return f


def has_kwvalue(fn, kw, kv):
    return _kwf(fn, kw, kv) is not None


def kwvalue(c, kw, kv):
    f = _kwf(c.fn, kw, kv)
    return f(c) if f is not None else {}
