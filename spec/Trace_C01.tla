----------------------------- MODULE Trace_C01 -----------------------------
(* Trace validation for C01: every case replayed in the real library comes   *)
(* back with its observation; TLC evaluates the property predicate on the    *)
(* OBSERVATION (P) and compares the observation with the transcription (T).  *)
EXTENDS Ufunc, Json, IOUtils
Obs == JsonDeserialize(IOEnv.OBS)
TableData == JsonDeserialize(IOEnv.TABLE)      \* sequence of [name, dim] for the real units used ([] in model runs)
MCTable == [n \in {TableData[j].name : j \in DOMAIN TableData} |->
              LET r == CHOOSE j \in DOMAIN TableData : TableData[j].name = n IN
              [UnitRec(n, TableData[r].dim, IF TableData[r].dim = "1" /\ ~TableData[r].one THEN <<1,7>> ELSE ROne, RZero)
                 EXCEPT !.em = {TableData[r].emdims[k] : k \in DOMAIN TableData[r].emdims}]]
VARIABLE i
Init == i = 1
CaseOf(r) == [fam |-> r.fam, op |-> r.op, form |-> r.form, k0 |-> r.k0, n0 |-> r.n0, k1 |-> r.k1, n1 |-> r.n1]
Next ==
  /\ i <= Len(Obs)
  /\ LET r == Obs[i] c == CaseOf(r) IN
       /\ ~P_C01(c, r.obs) => PrintT(ToJson([tag |-> "P-FAIL", idx |-> i, cls |-> PClass(c),
                                              clause |-> IF Demanded(c) THEN "refuse" ELSE "eq_all_false"]))
       /\ (P_C01(c, r.obs) /\ ~T_C01(c, r.obs)) => PrintT(ToJson([tag |-> "T-FAIL", idx |-> i, model |-> Outcome(c)]))
       /\ (Demanded(c) \/ EqDemanded(c)) => PrintT(ToJson([tag |-> "APPLIED", idx |-> i]))
  /\ i' = i + 1
=============================================================================
