"""C20 - the unit-string interface is total, canonical and re-readable.

Spec: spec/Parser.tla (+ MC_C20, Trace_C20).
  1. valid side: TLC enumerates unit-expression trees (prefix sequences) over a small table of name
     spellings (plain, prefixed, unicode/ASCII pairs, offset units, alias words, custom-registry
     symbols), numeric coefficients and rational exponents; the spec renders every tree into 7
     equivalent spellings and computes [[e]].  A second instance sweeps every documented name
     under unary templates; a builder machine run by TLC's simulator goes deeper.
  2. replay: every spelling is parsed by the real Unit(); the same tree is evaluated by unit
     arithmetic (plain / simplify / base equivalent); every unit obtained is printed with str() and
     repr() and re-read.
  3. total side: TLC enumerates token sequences over the 28-token alphabet (two joiners); each string
     runs under a per-case wall-clock limit with sympy's eval instrumented (names resolved, attribute
     loads, lambdas, imports).  A seeded character-level fuzzer adds strings (projected onto the
     spec's primitive lexical classes).
  4. TLC (Trace_C20) evaluates the C20 predicates on every observation (P) and compares with the
     transcription (T)."""

import ast
import json
import os
import random
import re
import time

from common import NCPU, MachineryFailure

JOINERS = [" ", ""]
_DBG = []
FULL = list(range(1, 29))
CORE = list(range(1, 17))
NUMERIC = [1, 3, 7, 11, 22, 23]  # m 9 ** - 0.3 (-2)
STRINGS = [3, 8, 9, 15, 17, 24, 25]  # 9 ( ) [ ] '' Symbol


# ---------------------------------------------------------------------------
def _tla_table(ck, name):
    src = open(ck.spec + "/Parser.tla").read()
    m = re.search(r"\n" + name + r" == <<(.*?)>>\s*\n", src)
    return [[int(a), int(b)] for a, b in re.findall(r"<<\s*(-?\d+),\s*(-?\d+)\s*>>", m.group(1))]


def _names_for_tlc(rows):
    return [{"cls": r["cls"], "atom": r["atom"], "alt": r["alt"], "dim": r["dim"], "off": r["off"], "kind": r["kind"], "neg": float(r["scale"]) < 0, "lg": r["lg"]} for r in rows]


def _cfg(ck, name, **kw):
    base = dict(Mode="valid", Depth=1, NGenNames=3, NGenCoefs=1, NGenExps=3, MaxD=3, MaxTok=2, TokPick=list(range(1, 17)), NJoin=2, Thin=1, MaxTr=1, MaxTrW=0, ExpPick=[11])
    base.update(kw)
    lines = ["CONSTANTS"]
    for k, v in base.items():
        lines.append(f"  {k} = " + (f'"{v}"' if isinstance(v, str) else "{" + ", ".join(map(str, v)) + "}" if isinstance(v, list) else str(v)))
    lines += ["INIT Init", "NEXT Next", "INVARIANT Export", "CHECK_DEADLOCK FALSE", ""]
    open(ck.spec + f"/{name}.cfg", "w").write("\n".join(lines))
    return name


def _ast_cases(res, tables, coefs, exps):
    return [{"k": "ast", "a": r["a"], "st": r["st"], "ext": r["ext"], "sp": r["sp"], "sem": r["sem"], "coefs": coefs, "exps": exps, "table": tables} for r in res.by_tag("AST")]


def _tok_cases(res):
    out = []
    for r in res.by_tag("TOK"):
        out.append({"k": "tok", "t": r["t"], "j": r["j"], "s": JOINERS[r["j"] - 1].join(r["x"])})
    return out


# ---------------------------------------------------------------------------
POOL = (
    list("mskgdCKeVu_ ")
    + list("01239")
    + ["**", "*", "/", "(", ")", "-", "+", ".", ",", "[", "]", "=", "'", '"', ":", ";", "%", "°", "µ", "μ", "Ω", "Å", "Δ"]
    + ["\t", "\n", "\\", "#", "!", "@", "^", "~", "<", ">", "{", "}", "|", "&", "sqrt", "sqrt(", "1e", "0.5", "lambda ", "__", "if ", " for ", " in "]
    + ["\x00", "Ω", "²", "é", "Å", "deg", "delta_", "Symbol(", "1/", "**-1", "**0.5", "km", "degC", "dimensionless", "Δ°C"]
)


def _fuzz(rnd, seeds, n):
    out = []
    seen = set()
    while len(out) < n:
        if seeds and rnd.random() < 0.6:
            s = rnd.choice(seeds)
            for _ in range(rnd.randint(1, 3)):
                op = rnd.randint(0, 4)
                i = rnd.randint(0, len(s))
                if op == 0:
                    s = s[:i] + rnd.choice(POOL) + s[i:]
                elif op == 1 and s:
                    s = s[:i] + s[i + 1 :]
                elif op == 2 and s:
                    s = s[:i] + rnd.choice(POOL) + s[i + 1 :]
                elif op == 3 and s:
                    j = rnd.randint(i, min(len(s), i + 4))
                    s = s[:j] + s[i:j] + s[j:]
                elif s:
                    j = rnd.randint(0, len(s))
                    a, b = min(i, j), max(i, j)
                    s = s[:a] + s[a:b][::-1] + s[b:]
        else:
            s = "".join(rnd.choice(POOL) for _ in range(rnd.randint(1, 8)))
        s = s[:48]
        if s in seen:
            continue
        seen.add(s)
        out.append({"k": "str", "s": s})
    return out


# ---------------------------------------------------------------------------
def _tlc_many(ck, jobs):
    """several independent TLC runs at once (each is single-threaded: export / trace validation).
    ck.tlc names its metadir after the number of runs so far, so every concurrent run works on a shallow
    copy of the Check with its own counter; the evidence is merged afterwards, in job order."""
    import concurrent.futures as cf
    import copy

    base = len(ck.tlc_runs)

    def one(arg):
        i, kw = arg
        sub = copy.copy(ck)
        sub.tlc_runs = [None] * (1000 + base + i)
        sub.cov = {"states": 0, "transitions": 0, "tlc_runs": []}
        return sub.tlc(**kw), sub.cov

    with cf.ThreadPoolExecutor(max_workers=max(1, min(len(jobs), NCPU))) as ex:
        outs = list(ex.map(one, enumerate(jobs)))
    for res, cov in outs:
        ck.tlc_runs.append(res)
        ck.cov["states"] += cov["states"]
        ck.cov["transitions"] += cov["transitions"]
        ck.cov["tlc_runs"] += cov["tlc_runs"]
    return [r for r, _ in outs]


def _validate(ck, batches):
    """TLC evaluates P (and T) on every observation; P-FAIL -> verdict, T-FAIL -> drift.
    batches: list of (obs, cases, names_path, label, chunk)."""
    jobs = []
    parts = []
    for obs, cases, names_path, label, chunk in batches:
        bad = [o for o in obs if "_error" in o]
        if bad:
            raise MachineryFailure("replay error: " + str(bad[0])[:800])
        for off in range(0, len(obs), chunk):
            part = obs[off : off + chunk]
            slim = [{k: v for k, v in o.items() if k not in ("texts", "negscale", "s", "warmups")} for o in part]
            for o in slim:
                if o["k"] == "ast":
                    o["rt"] = [{k: v for k, v in e.items() if k not in ("text",)} for e in o["rt"]]
            path = ck.write_json(f"obs_{label}_{off}.json", slim)
            jobs.append(dict(module="Trace_C20", env={"OBS": path, "NAMES": names_path}, workers=1, coverage=False, label=f"trace-validation {label}", timeout=3000))
            parts.append((part, cases, off))
    results = _tlc_many(ck, jobs)
    for res, (part, cases, off) in zip(results, parts):
        if res.distinct != len(part) + 1:
            raise MachineryFailure(f"trace validation consumed {res.distinct} states, expected {len(part) + 1}")
        ck.validated(len(part))
        if res.by_tag("M-FAIL"):
            raise MachineryFailure("harness/spec disagreement: " + str(res.by_tag("M-FAIL")[0]))
        for r in res.by_tag("T-FAIL"):
            o = part[r["tid"] - 1]
            c = cases[off + r["tid"] - 1]
            if o["k"] == "ast":
                detail = {"tree": o["a"], "spelling": o["texts"][r["j"] - 1] if r["op"] == "parse-spelling" and o["texts"] else "", "rt": o["rt"][r["j"] - 1] if r["op"] != "parse-spelling" else ""}
            elif o["k"] == "hist":
                detail = {"input": o["s"], "cold": o["cold"][0]}
            elif o["k"] == "persist":
                detail = {"case": [o["rk"], o["f"], o["ca"], o["rt"]], "reread": o["r"], "exc": o["exc"]}
            else:
                detail = {"input": ascii(c["s"]), "observed": o["o"], "warm": o.get("iswarm", "")}
            ck.drift_step(r["op"], detail)
            _DBG.append([r["op"], detail])
        for r in res.by_tag("P-FAIL"):
            o = part[r["tid"] - 1]
            c = cases[off + r["tid"] - 1]
            clause = r["clause"]
            if clause == "spelling":
                key = {"clause": clause, "what": r["what"], "outcome": r["outcome"], "spelling": o["texts"][r["j"] - 1][1:-1] if o["texts"] else "", "negative_scale_name": bool(o.get("negscale"))}
                detail = {"tree": o["a"], "style": r["j"], "observed": o["sp"][r["j"] - 1]}
            elif clause.startswith("reread"):
                e = o["rt"][r["idx"] - 1]
                key = {"clause": clause, "via": e["via"], "what": r["what"], "outcome": r["outcome"], "printed": e["text"][1:-1], "micro_alias_symbol": bool(e.get("micro")), "unit_offset": e["u"]["off"],
                       "offset_unit_in_compound": e["u"]["off"] not in ("0.0", "-0.0") and (len(e["u"]["vec"]) != 1 or e["u"]["coef"] != [1, 1] or e["u"]["vec"][0][1:] != [1, 1])}
                detail = {"tree": o["a"], "source": e["src"], "unit": e["u"], "reread": e["r"]}
            elif o["k"] == "hist":
                form = ["Unit(s, registry=r)", "unyt_quantity(1, s, registry=r)", "quantity.to(s)"][r["j"] - 1]
                key = {"clause": clause, "call": form, "warmup": o["w"], "registry": o["r"], "parsed_before_under": o["q"], "what": r["what"] if clause == "history" else "", "outcome": r["outcome"], "input": o["s"][1:-1]}
                detail = {"after_parsing": o["warmups"], "cold": o["cold"][r["j"] - 1], "warm": o["warm"][r["j"] - 1]}
            elif clause == "persist":
                key = {"clause": clause, "route": o["rt"], "registry": o["rk"], "carrier": o["ca"], "form": o["f"], "what": r["what"], "outcome": r["outcome"]}
                detail = {"written": o["w"], "reread": o["r"], "exception": o["exc"]}
            else:
                feat = r["what"] if clause == "total" else (o["cs"] if o["k"] == "str" else [])
                key = {"clause": clause, "outcome": r["outcome"], "feat": list(feat) if clause == "total" else [], "input": ascii(c["s"])[1:-1]}
                detail = {"evaluated": o["ev"], "kind": o["k"]}
                if o["k"] == "py":
                    key["parser"] = "warm" if o["warm"] else "cold"
            ck.violation(key, detail, case={k: v for k, v in c.items()})


def _replay(ck, cases, rows):
    t = time.time()
    out = ck.pmap("impl_c20", "observe", cases, common={"names": rows}, chunk_timeout=7200)
    ck.cov.setdefault("replay_wall_s", []).append([len(cases), round(time.time() - t, 1)])
    return out


def _debug_dump(ck):
    path = os.environ.get("VERIF_C20_DEBUG")
    if path:
        with open(path, "w") as f:
            json.dump({"violations": [[k, d] for _p, k, d in ck.violations], "known": ck.known_hits, "notes": ck.notes, "drift": ck.drift, "driftlist": _DBG[:5000], "replay": ck.cov.get("replay_wall_s")}, f, default=str)


def run(ck):
    ck.level = "model_checking"
    ck.assumptions += [
        "valid side: trees over the model name table (18 spellings + alternatives), 4 coefficients, 10 exponents; irrational coefficients, exponents whose 12x dimension is not integral, and exponents/coefficients beyond the 32-bit pipeline are excluded from generation (Good)",
        "equal units = dimension (exact, TLC), offset (exact repr, TLC), scale within rel 1e-9 of [[e]] evaluated on the registry's table (harness tolerance match)",
        "total side: 28-token alphabet, two joiners; outcome Hang = the case consumed the per-case limit of 6 CPU-seconds in its child process without answering (the generated power towers need minutes); wall-clock cap 360 s",
        "foreign evaluation is observed through sympy's eval_expr: names resolved outside {Symbol, Integer, Float, Rational, sqrt}, attribute loads, lambdas, imports, assignments",
        "name sweep excludes names the independent reading cannot resolve (prefix-word + degree-sign alternatives: C14's finding) and the empty alias of dimensionless",
        "savetxt -> loadtxt may refuse only text naming symbols the user added (no table travels); the workers run in UTF-8 mode: files written under another locale encoding are not covered",
        "cross-registry history: every case runs in a process forked for it, so process-wide state cannot travel between cases; state set while unyt is imported is part of every (cold) reading",
        "a unit whose expression is the number 1 (prints as 'dimensionless') is not treated as coefficient free: only equality is demanded of its re-reading",
    ]
    tables = ck.pmap("impl_c20", "observe", [{"k": "tables"}], nproc=1)[0]
    if "_error" in tables:
        raise MachineryFailure("table extraction failed: " + str(tables))
    rows_mc = tables["mc"]["rows"]
    rows_sw = tables["sweep"]["rows"]
    p_mc = ck.write_json("names_mc.json", _names_for_tlc(rows_mc))
    p_sw = ck.write_json("names_sweep.json", _names_for_tlc(rows_sw))
    rows_mag = tables["mag"]["rows"]
    p_mag = ck.write_json("names_mag.json", _names_for_tlc(rows_mag))
    coefs = _tla_table(ck, "Coefs")
    exps = _tla_table(ck, "Exps")
    ck.cov["name_tables"] = {"model": len(rows_mc), "sweep": len(rows_sw), "sweep_excluded": len(tables["sweep"]["excluded"])}

    if ck.replay:
        blob = json.load(open(ck.replay))
        case = blob["case"]
        rows, path = (rows_sw, p_sw) if case.get("table") == "sweep" else (rows_mag, p_mag) if case.get("table") == "mag" else (rows_mc, p_mc)
        obs = ck.pmap("impl_c20", "observe", [case], nproc=1, common={"names": rows})
        _validate(ck, [(obs, [case], path, "replay", 10)])
        return

    # ---- generation: all TLC instances at once
    nn, nc, ne = ck.q((3, 1, 3), (5, 2, 5))
    depth = ck.q(3, 4)
    gen = [
        dict(module="MC_C20", cfg=_cfg(ck, "MC_C20_valid", Mode="valid", Depth=2, NGenNames=nn, NGenCoefs=nc, NGenExps=ne), env={"NAMES": p_mc}, workers=1,
             label=f"valid trees depth<=2 names={nn} coefs={nc} exps={ne}", required_actions=["Next"], timeout=3000),
        dict(module="MC_C20", cfg=_cfg(ck, "MC_C20_mcsweep", Mode="sweep", NGenNames=len(rows_mc), NGenExps=10), env={"NAMES": p_mc}, workers=1,
             label="model table x unary templates", required_actions=["Next"]),
        dict(module="MC_C20", cfg=_cfg(ck, "MC_C20_build", Mode="build", NGenNames=ck.q(6, 8), NGenCoefs=2, NGenExps=ck.q(5, 6), MaxD=depth, Thin=ck.q(97, 7)), env={"NAMES": p_mc},
             workers=1, simulate=ck.q(15, 120), depth=depth + 1, label=f"builder simulation depth={depth}", timeout=3000),
        dict(module="MC_C20", cfg=_cfg(ck, "MC_C20_sweep", Mode="sweep", NGenNames=len(rows_sw), NGenExps=ck.q(0, 5)), env={"NAMES": p_sw}, workers=1,
             label="name sweep x unary templates", required_actions=["Next"], timeout=3000),
    ]
    toks = ck.q(
        [("full alphabet len<=3", dict(MaxTok=3, TokPick=FULL, NJoin=2)), ("numeric corner len<=5", dict(MaxTok=5, TokPick=NUMERIC, NJoin=1)), ("string corner len<=4", dict(MaxTok=4, TokPick=STRINGS, NJoin=1))],
        [("full alphabet len<=4", dict(MaxTok=4, TokPick=FULL, NJoin=1)), ("full alphabet len<=3", dict(MaxTok=3, TokPick=FULL, NJoin=2)), ("core alphabet len<=5", dict(MaxTok=5, TokPick=CORE, NJoin=1)), ("numeric corner len<=5", dict(MaxTok=5, TokPick=NUMERIC, NJoin=2)), ("string corner len<=5", dict(MaxTok=5, TokPick=STRINGS, NJoin=1))],
    )
    gen.append(dict(module="MC_C20", cfg=_cfg(ck, "MC_C20_py", Mode="py", MaxTr=ck.q(2, 3), MaxTrW=ck.q(1, 2)), env={"NAMES": p_mc}, workers=1,
                    label="python corner: head x trailers x wrapper x warm/cold", required_actions=["Next"], timeout=3000))
    gen.append(dict(module="MC_C20", cfg=_cfg(ck, "MC_C20_persist", Mode="persist"), env={"NAMES": p_mc}, workers=1,
                    label="persistence: registry kind x form x carrier x route", required_actions=["Next"]))
    # magnitude: extreme-scale names x large integer exponents (strings and unit arithmetic, printed and re-read)
    gen.append(dict(module="MC_C20", cfg=_cfg(ck, "MC_C20_mag", Mode="mag", NGenNames=len(rows_mag), ExpPick=ck.q([11, 12, 13, 17], [11, 12, 13, 14, 15, 16, 17])), env={"NAMES": p_mag},
                    workers=1, label="magnitude: extreme-scale names x large integer exponents", required_actions=["Next"], timeout=3000))
    # exponent forms: every float / rational spelling in every syntactic position
    gen.append(dict(module="MC_C20", cfg=_cfg(ck, "MC_C20_expform", Mode="expform", NGenNames=ck.q(2, 3), NGenCoefs=2, NGenExps=ck.q(5, 10)), env={"NAMES": p_mc},
                    workers=1, label="exponent/coefficient forms x positions", required_actions=["Next"], timeout=3000))
    # parsing history: what a string denotes must not depend on what the registry parsed before
    HFULL = list(range(1, 14))
    HSUB = [1, 2, 7, 8, 9, 11, 12]  # m s 1 0 * ** (
    for n, (lab, kw) in enumerate(ck.q([("13 tokens len<=2", dict(MaxTok=2, TokPick=HFULL)), ("7 tokens len<=3", dict(MaxTok=3, TokPick=HSUB))],
                                       [("13 tokens len<=3", dict(MaxTok=3, TokPick=HFULL)), ("7 tokens len<=4", dict(MaxTok=4, TokPick=HSUB))])):
        gen.append(dict(module="MC_C20", cfg=_cfg(ck, f"MC_C20_hist{n}", Mode="hist", **kw), env={"NAMES": p_mc}, workers=1,
                        label="parsing history: " + lab + " x joiner x warm-up kind", required_actions=["Next"], timeout=3000))
    # ... and not on what registries with OTHER contents parsed before (token sequences over the names and *; thorough: + 1 /)
    HNAMES = ck.q([1, 2, 3, 4, 5, 6, 9], [1, 2, 3, 4, 5, 6, 7, 9, 10])
    gen.append(dict(module="MC_C20", cfg=_cfg(ck, "MC_C20_xreg", Mode="xreg", MaxTok=2, TokPick=HNAMES, NJoin=ck.q(2, 3)), env={"NAMES": p_mc}, workers=1,
                    label="parsing history across registries: tokens x joiner x (registry kind, other kind)", required_actions=["Next"], timeout=3000))
    NFIX = len(gen)
    for n, (lab, kw) in enumerate(toks):
        gen.append(dict(module="MC_C20", cfg=_cfg(ck, f"MC_C20_tok{n}", Mode="tok", **kw), env={"NAMES": p_mc}, workers=1, label="token sequences " + lab, required_actions=["Next"], timeout=3000))
    res = _tlc_many(ck, gen)

    # ---- (a) valid side
    cases = _ast_cases(res[0], "mc", coefs, exps)
    if len(cases) < 100:
        raise MachineryFailure("too few trees exported")
    cases += _ast_cases(res[1], "mc", coefs, exps)
    sims = _ast_cases(res[2], "mc", coefs, exps)
    rnd = random.Random(ck.seed)
    sims.sort(key=lambda c: str(c["a"]))
    seen = set(str(c["a"]) for c in cases)
    picked = []
    for c in rnd.sample(sims, min(len(sims), ck.q(600, 20000))):
        if str(c["a"]) not in seen:
            seen.add(str(c["a"]))
            picked.append(c)
    cases += picked
    ck.cov["simulated_trees"] = len(picked)
    ck.sample({"tree": cases[len(cases) // 2]["a"], "spellings": cases[len(cases) // 2]["sp"]})
    obs = _replay(ck, cases, rows_mc)
    seeds = []
    for o in obs[:: max(1, len(obs) // 400)]:
        seeds += [ast.literal_eval(t) for t in o["texts"][:2]]

    # ---- (a') every documented name under unary templates
    scases = _ast_cases(res[3], "sweep", coefs, exps)
    sobs = _replay(ck, scases, rows_sw)
    ck.cov["sweep_cases"] = len(scases)

    # ---- (b) total side: token sequences
    tcases = []
    for r in res[NFIX:]:
        tcases += _tok_cases(r)
    seen = set()
    uniq = []
    for c in tcases:
        k = (tuple(c["t"]), c["j"])
        if k not in seen:
            seen.add(k)
            uniq.append(c)
    tcases = uniq
    ck.sample({"tokens": tcases[len(tcases) // 3]["s"]})
    tobs = _replay(ck, tcases, rows_mc)
    ck.cov["token_cases"] = len(tcases)
    ck.cov["token_outcomes"] = {}
    for o in tobs:
        ck.cov["token_outcomes"][o.get("o", "?")] = ck.cov["token_outcomes"].get(o.get("o", "?"), 0) + 1

    # ---- (b') seeded character-level fuzzing (random driver, same predicates)
    fcases = _fuzz(random.Random(ck.seed * 7919 + 13), seeds, ck.q(3000, 60000))
    fobs = _replay(ck, fcases, rows_mc)
    ck.cov["fuzz_strings"] = len(fcases)
    ck.cov["fuzz_outcomes"] = {}
    for o in fobs:
        ck.cov["fuzz_outcomes"][o.get("o", "?")] = ck.cov["fuzz_outcomes"].get(o.get("o", "?"), 0) + 1

    # ---- (b'') the Python corner (warm and cold parser) and (c) the persistence routes
    pcases = [{"k": "py", "h": r["h"], "tr": r["tr"], "w": r["w"], "warm": r["warm"], "s": r["s"]} for r in res[4].by_tag("PY")]
    pcases.sort(key=lambda c: (c["h"], c["w"], c["tr"], c["warm"]))
    pobs = _replay(ck, pcases, rows_mc)
    ck.cov["python_corner_cases"] = len(pcases)
    ck.cov["python_corner_outcomes"] = {}
    for o in pobs:
        ck.cov["python_corner_outcomes"][o.get("o", "?")] = ck.cov["python_corner_outcomes"].get(o.get("o", "?"), 0) + 1
    if any(o.get("iswarm") != o.get("warm") for o in pobs if "_error" not in o and o.get("o") != "Hang"):
        raise MachineryFailure("the warm/cold state of the parser's global dict could not be set up")
    ck.sample({"python_corner": pcases[len(pcases) // 2]["s"]})
    scases2 = [{"k": "persist", "rk": r["rk"], "f": r["f"], "ca": r["ca"], "rt": r["rt"]} for r in res[5].by_tag("PERSIST")]
    sobs2 = _replay(ck, scases2, rows_mc)
    ck.cov["persistence_cases"] = len(scases2)
    ck.cov["uncovered"] = list(ck.cov.get("uncovered", [])) + ["savetxt/loadtxt of a re-valued default symbol: nothing travels with the text and loadtxt takes no registry (read with the stock value; not demanded)"]

    # ---- (a'') magnitude and exponent-form trees
    mcases = _ast_cases(res[6], "mag", coefs, exps)
    mobs = _replay(ck, mcases, rows_mag)
    ck.cov["magnitude_cases"] = {"trees": len(mcases), "extreme": sum(1 for c in mcases if c["ext"])}
    ecases = _ast_cases(res[7], "mc", coefs, exps)
    eobs = _replay(ck, ecases, rows_mc)
    ck.cov["exponent_form_cases"] = {"trees": len(ecases), "spellings": sum(len(c["sp"]) for c in ecases)}
    if ck.cov["magnitude_cases"]["extreme"] < 20:
        raise MachineryFailure("the magnitude instance produced no extreme trees")

    # ---- parsing history
    hcases = []
    seenh = set()
    for r in res[8].by_tag("HIST") + res[9].by_tag("HIST") + res[10].by_tag("HIST"):
        k = (tuple(r["t"]), r["j"], r["w"], r["r"], r["q"])
        if k not in seenh:
            seenh.add(k)
            hcases.append({"k": "hist", "t": r["t"], "j": r["j"], "w": r["w"], "r": r["r"], "q": r["q"], "x": r["x"]})
    hobs = _replay(ck, hcases, rows_mc)
    ck.cov["history_cases"] = len(hcases)
    ck.cov["history_cross_registry_cases"] = sum(1 for c in hcases if c["w"] == "foreign")
    if not any(o["cold"][0]["o"] == "Ok" and o["r"] == k for o in hobs if "_error" not in o and o["w"] == "foreign" for k in ("bare",)):
        raise MachineryFailure("the cross-registry history instance accepted nothing under the bare registry")
    ck.cov["history_cold_outcomes"] = {}
    for o in hobs:
        if "_error" not in o:
            ck.cov["history_cold_outcomes"][o["cold"][0]["o"]] = ck.cov["history_cold_outcomes"].get(o["cold"][0]["o"], 0) + 1

    # ---- validation: TLC evaluates the predicates on every observation
    _validate(ck, [(obs, cases, p_mc, "valid", 3000), (sobs, scases, p_sw, "sweep", 3000), (tobs, tcases, p_mc, "tokens", 60000), (fobs, fcases, p_mc, "fuzz", 60000),
                   (pobs, pcases, p_mc, "python", 60000), (sobs2, scases2, p_mc, "persist", 60000),
                   (mobs, mcases, p_mag, "magnitude", 3000), (eobs, ecases, p_mc, "expforms", 3000), (hobs, hcases, p_mc, "history", 20000)])
    n_eval = sum(len(o["sp"]) + len(o["rt"]) for o in obs) + sum(len(o["sp"]) + len(o["rt"]) for o in sobs) + len(tobs) + len(fobs) + len(pobs) + len(sobs2) + sum(len(o["sp"]) + len(o["rt"]) for o in mobs + eobs) + 6 * len(hobs)
    n_nontrivial = len(cases) + len(scases) + sum(1 for o in tobs if o["o"] != "UnitParseError" or o["ev"]) + len(scases2) + len(set(c["s"] for c in pcases)) + len(mcases) + len(ecases)

    _debug_dump(ck)
    ck.cov["exhaustive"] = True
    ck.cov["evaluations"] = n_eval
    ck.cov["distinct_nontrivial"] = n_nontrivial
    ck.cov["rule"] = "evaluations = Unit() constructions judged by TLC (spellings + re-reads + token strings + fuzz strings); non-trivial = trees (each parsed in 7 spellings, evaluated by arithmetic and re-read) + token strings whose outcome is not a plain UnitParseError"
