"""C17 - conversions and mixed-unit arithmetic never truncate to integers.

Spec: spec/DType.tla (+ MC_C17, Trace_C17).
  1. TLC enumerates the case table of the bounded instance (conversion routes x
     dtype x value class x unit pair x shape, each copy route paired with its
     in-place twin; mixed-unit binary ufuncs x dtype0 x dtype1 x value classes x
     out variants), checks the model-level invariants of the transcription and
     exports every case with the outcome of the transition and the model-level
     verdict of the C17 predicates (which clauses the design as transcribed breaks).
  2. every case is replayed in the real library (harness/impl_c17.py) on a dyadic
     model registry; results are projected to dtype / raise / warnings / exact
     rationals / rounding flags.
  3. TLC (Trace_C17) evaluates the C17 predicates on every observation (P) and
     compares it with the transition (T).
"""

import json
import os
import random

import concurrent.futures as cf

from common import NCPU, MachineryFailure

CHUNK = 30000
# which of the proposed repairs (fixes/C17-*.patch) the tree under test carries: selects the matching
# transcription in DType.tla (Fixes).  Empty = /repo HEAD.  Override for experiments: C17_TREE_FIXES=large,inbase
TREE_FIXES = {"large", "inbase", "complexop", "inplace", "tovalue", "ufuncscale"}  # /repo HEAD carries these repairs (fix: commits 6aeb2e4..36aece9)


def _units_class(c):
    """conv family: what kind of unit pair (part of the key; older keys do not list it)."""
    if c.get("em"):
        return "em"
    if c.get("ident"):
        return "identity"
    if c.get("from") in (19, 20, 21, 22, 23) or c.get("to") in (19, 20, 21, 22, 23):
        return "offset"
    if (c.get("from"), c.get("to")) in ((2, 11), (11, 2), (17, 18), (24, 25)):
        return "same-scale"
    return "scale"


def _key(r, c=None):
    k = {"fam": r["fam"], "clause": r["cl"], "route": r["route"], "dtype": r["d"]}
    if c is not None and c.get("fam") == "conv":
        k["units"] = _units_class(c)
    k["vclass"] = r["vc"]
    k["factor"] = "up" if r["k"] > 0 else "down"
    if r["fam"] in ("ufunc", "comb", "ureal"):
        k["dtype1"] = r["d1"]
        k["out"] = "none" if r["out"] == "none" else ("inplace" if r["out"] == "inplace" else "buffer")
    else:
        k["scalar"] = r["shape"] == "q"
    return k


def _validate_chunk(ck, part, label, off):
    path = ck.write_json(f"obs_{label}_{off}.json", part)
    res = ck.tlc("Trace_C17", env={"OBS": path}, workers=1, coverage=False, label=f"trace validation {label} [{off}:{off + len(part)}]", timeout=3000)
    if res.distinct != len(part) + 1:
        raise MachineryFailure(f"trace validation consumed {res.distinct} states, expected {len(part) + 1}")
    if res.by_tag("ORACLE"):
        r = res.by_tag("ORACLE")[0]
        raise MachineryFailure("harness rounding flags disagree with TLC's exact arithmetic on " + json.dumps(part[r["i"] - 1])[:800])
    return res


def _validate(ck, obs, label):
    """TLC evaluates P and T on every observation; chunks run concurrently, verdicts are reported in case order."""
    n_p = 0
    njobs = max(1, min(NCPU // 2, 8))
    chunk = max(2000, min(CHUNK, -(-len(obs) // njobs)))
    offs = list(range(0, len(obs), chunk))
    with cf.ThreadPoolExecutor(max_workers=njobs) as ex:
        results = list(ex.map(lambda off: _validate_chunk(ck, obs[off : off + chunk], label, off), offs))
    for off, res in zip(offs, results):
        part = obs[off : off + chunk]
        ck.validated(len(part))
        for r in sorted(res.by_tag("T-FAIL"), key=lambda r: r["i"]):
            c = part[r["i"] - 1]["c"]
            ck.drift_step(r["route"], {"case": _short(c), "model": r["model"], "observed": r["observed"]})
        for r in sorted(res.by_tag("P-FAIL"), key=lambda r: (r["i"], r["route"], r["cl"])):
            ent = part[r["i"] - 1]
            c = ent["c"]
            o = ent["o"]
            side = o if c["fam"] in ("ufunc", "comb", "ureal") else (o["c"] if r["route"] == c["route"] else o["i"])
            detail = {"case": _short(c), "observed": _oshort(side)}
            if r["cl"] == "C17c":
                detail["observed_inplace"] = _oshort(o["i"])
            ck.violation(_key(r, c), detail, case=_strip(c))
            n_p += 1
    return n_p


def _strip(c):
    return {k: v for k, v in c.items()}


def _short(c):
    if c["fam"] == "conv":
        fac = f"{impl_units(c['from'])}->{impl_units(c['to'])}" if (c.get("real") or c["from"] > 11 or c.get("ident")) else f"x2^{c['k']}"
        return f"{c['route']}/{c['twin']} {c['d']} {c['vc']} {'scalar' if c['shape'] == 'q' else 'array'} {fac}"
    if c["fam"] == "comb":
        return f"{c['form']} {c['op']} array {c['d0']}[u{c['ua']}] {c['va'][1]} / elements {c['d1']} [u{c['uf']}, u{c['us']}] {c['vc1']}"
    if c["fam"] == "ureal":
        return f"np.{c['op']} {c['d0']}[{impl_units(c['u0'])}] {c['d1']}[{impl_units(c['u1'])}] {c['vc0']},{c['vc1']}"
    return f"np.{c['op']} {c['d0']}[u{c['u0']}] {c['d1']}[u{c['u1']}] {c['vc0']},{c['vc1']} {c['shape']} out={c['out']} x2^{c['k']}"


def impl_units(i):
    return {1: "m", 2: "la", 3: "lc", 4: "km", 5: "mile", 6: "cm", 7: "mm", 8: "Mm", 9: "ym", 10: "Ym", 11: "lnd", 12: "l_pl", 13: "Wh", 14: "J", 15: "dB", 16: "B",
            17: "N", 18: "kg*m/s**2", 19: "degC", 20: "degF", 21: "K", 22: "tc", 23: "tf", 24: "dyn", 25: "g*cm/s**2",
            26: "A", 27: "statA", 28: "mA", 29: "T", 30: "G", 31: "kV", 32: "V", 33: "uC", 34: "C"}[i]


def _oshort(o):
    if o.get("raise"):
        return "raises " + o.get("exc", "")
    els = []
    for e in o.get("els", []):
        v = (f"{e['re'][0]}/{e['re'][1]}" + (f"+{e['im'][0]}/{e['im'][1]}j" if e["im"][0] else "")) if e["has"] else "(large)"
        els.append(v + ("" if (e["mR"] or e["mW"] or e["mS"] or e["mP"] or e.get("mX")) else "!") + ("[truncated]" if e.get("mT") else ""))
    return f"{'py ' if o['py'] else ''}{o['kind']}{o['size']} [{', '.join(els)}] RuntimeWarning={o['warnR']}"


def run(ck):
    ck.level = "model_checking"
    ck.assumptions += [
        "dyadic model registry (m = 1, la = 2^10 m, lc = 2^-3 m): exact results are dyadic rationals, compared bit-for-bit after exact round-to-nearest-even",
        "values beyond TLC's 32-bit integers travel as value-class ids; the harness supplies 'observed == exact value rounded to type X' flags, cross-checked against TLC's own arithmetic on the small classes (ORACLE records)",
        "long double is x87 extended (f16/c32); asserted in the worker",
        "known findings are matched on (family, clause, route/ufunc, dtype, value class / second dtype)",
    ]
    if ck.replay:
        blob = json.load(open(ck.replay))
        obs = ck.pmap("impl_c17", "observe", [blob["case"]], nproc=1)
        if "_error" in obs[0]:
            raise MachineryFailure("replay error: " + str(obs[0]))
        _validate(ck, obs, "replay")
        return

    cfg = ck.q("MC_C17_quick", "MC_C17_full")
    fixes = set(filter(None, os.environ.get("C17_TREE_FIXES", "").split(","))) or set(TREE_FIXES)
    # which transcription (T only, never P) of in_base's E&M branch: the tree under test is read for the line the
    # repair removes, so the same check is drift-free on /repo before and after the fix: commit
    src = open(os.path.join(os.environ.get("UNYT_VERIF_REPO") or "/repo", "unyt", "array.py")).read()
    if "ret = self.v * conv" not in src[src.index("def in_base("):src.index("def in_cgs(")]:
        fixes.add("embase")
    fixes = sorted(fixes)
    if fixes:
        mod = open(ck.spec + "/MC_C17.tla").read()
        end = mod.rindex("\n====") + 1
        open(ck.spec + "/MC_C17.tla", "w").write(mod[:end] + "TreeFixes == {" + ", ".join('"%s"' % f for f in fixes) + "}\n" + mod[end:])
        text = open(ck.spec + f"/{cfg}.cfg").read().replace("CONSTANTS\n", "CONSTANTS\n  Fixes <- TreeFixes\n", 1)
        cfg = cfg + "_fixes"
        open(ck.spec + f"/{cfg}.cfg", "w").write(text)
        ck.assumptions.append("transcription switches for repaired trees: " + ",".join(fixes))
    base = open(ck.spec + f"/{cfg}.cfg").read()
    # experiments only: C17_GROUPS=FamsConv replays one group of families (the evidence then says so in "bound")
    groups = list(filter(None, os.environ.get("C17_GROUPS", "").split(","))) or ["FamsConv", "FamsUfunc", "FamsOut", "FamsComb"]

    def export(g):
        open(ck.spec + f"/{cfg}_{g}.cfg", "w").write(base.replace("Fams <- FamsAll", "Fams <- " + g))
        r = ck.tlc("MC_C17", f"{cfg}_{g}", workers=1, label=f"case table {cfg} {g} (export + model-level invariants)", required_actions=["Next"], timeout=3000)
        got = [x for x in r.records if x.get("fam") in ("conv", "ufunc", "comb", "ureal")]
        if len(got) != r.distinct - 1:
            raise MachineryFailure(f"exported {len(got)} cases but TLC found {r.distinct - 1} ({g})")
        return got

    with cf.ThreadPoolExecutor(max_workers=len(groups)) as ex:
        cases = [c for part in ex.map(export, groups) for c in part]
    if len(cases) < 1000:
        raise MachineryFailure("too few cases exported")
    # deterministic order (TLC's export order is already deterministic with one worker; make it canonical)
    cases.sort(key=lambda c: json.dumps(c, sort_keys=True))
    model_classes = sorted({(c["fam"], x["route"], x["cl"]) for c in cases for x in c["mfail"]})
    ck.cov["model_level_failing_classes"] = [list(x) for x in model_classes]
    ck.cov["exhaustive"] = True
    ck.cov["bound"] = {"cfg": cfg, "cases": len(cases), "conv": sum(c["fam"] == "conv" and not c["real"] for c in cases), "conv_real_units": sum(c["fam"] == "conv" and c["real"] for c in cases), "ufunc": sum(c["fam"] == "ufunc" and c["out"] == "none" for c in cases), "ufunc_out": sum(c["fam"] == "ufunc" and c["out"] != "none" for c in cases), "comb": sum(c["fam"] == "comb" for c in cases), "ufunc_real_units": sum(c["fam"] == "ureal" for c in cases)}
    rnd = random.Random(ck.seed)
    ck.sample(_short(cases[rnd.randrange(len(cases))]))
    ck.sample(_short(cases[rnd.randrange(len(cases))]))

    obs = ck.pmap("impl_c17", "observe", cases, chunk_timeout=2400)
    bad = [o for o in obs if "_error" in o]
    if bad:
        raise MachineryFailure("replay error: " + str(bad[0])[:1500])
    _validate(ck, obs, "cases")

    nontriv = 0
    for o in obs:
        c = o["c"]
        if c["fam"] == "conv":
            if c["d"][0] in "iu" or c["d"] in ("f2", "f4", "f16", "c8", "c16", "c32"):
                nontriv += 1
        elif c["d0"][0] in "iuc" or c["d1"][0] in "iuc" or c["d0"] != c["d1"]:
            nontriv += 1
    ck.cov["evaluations"] = len(obs)
    ck.cov["distinct_nontrivial"] = nontriv
    ck.cov["rule"] = "conversion cases whose data are not float64 (integer, narrow/wide float or complex); ufunc cases with an integer or complex operand or two different dtypes"
    ck.cov["uncovered"] = [
        "non-dyadic conversion factors (rounding of factor products; only the dyadic registry is compared bit-for-bit)",
        "equivalence conversions that change dimension (thermal, spectral...): only the same-dimension branch of to_equivalent/convert_to_equivalent is replayed",
        "E&M units beyond mA/A, kV/V, uC/C, A/statA, T/G; offset units in mixed-unit ufuncs; bool/object/datetime dtypes, ufuncs other than add/subtract/maximum/minimum and the six comparisons",
    ]
