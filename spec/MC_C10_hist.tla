----------------------------- MODULE MC_C10_hist -----------------------------
(* Bounded instance of UnitSystemHist: every history of calls on one user-   *)
(* defined system up to MaxLen (history hidden by VIEW: exhaustive over the  *)
(* abstract state), one witness history exported per distinct state; the     *)
(* model reports which states make a later conversion depend on the history. *)
EXTENDS UnitSystemHist
CONSTANT MaxLen
Next == /\ Len(hist) < MaxLen
        /\ \/ \E b \in HBases : New(b)
           \/ \E dd \in HDecls : Declare(dd)
           \/ \E d \in HDims : Get(d)
           \/ \E v \in {"in_base", "gbe", "convert_to_base"}, x \in HUnits : Conv(v, x)
\* the last call is part of the view: every (state, last call) pair gets a witness, so calls that lead to the same state
\* (e.g. two differently inconsistent creations) are both replayed
View == <<sys, made, memo, emc, last, IF hist = <<>> THEN <<>> ELSE hist[Len(hist)]>>
ExportState == PrintT(ToJson([tag |-> "HIST", h |-> hist, stale |-> {UnitIdx(x) : x \in {y \in HUnits : made /\ StaleLru(y)}}]))
=============================================================================
