CONSTANTS
  Tier = "quick"
  Part = "tol"
INIT Init
NEXT Next
INVARIANT Export
CHECK_DEADLOCK FALSE
