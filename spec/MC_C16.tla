------------------------------ MODULE MC_C16 ------------------------------
(* Bounded instances of Shape for C16.  A behaviour is a history of calls on  *)
(* a small object graph: object 1 is a bare ndarray of shape `root` holding   *)
(* 1..n; every call takes one existing object and yields a new one.  TLC      *)
(* enumerates (or simulates) the histories and exports them; the replay then  *)
(* writes through every object in turn and observes which others see it       *)
(* (that phase is deterministic and is modelled in Trace_C16).                *)
(*   MC_C16_single : every root shape of rank <= MaxRank over Ext, one        *)
(*                   constructor, one call (the full alphabet)                *)
(*   MC_C16_hist   : a few root shapes, reduced alphabet, deeper histories    *)
(*                   (exhaustive to Depth, or -simulate)                      *)
(*   MC_C16_mixed  : mixed-unit lists: every unit pattern x call form         *)
(* The root comes in the memory layouts `Layouts` (C, Fortran, column of a    *)
(* wider base, reversed) wherever that differs from C order.                  *)
EXTENDS Shape
CONSTANTS Slice, NSlices, Ext, Ext3, MaxRank, RootSet, Layouts, LayCtors, MixRich, MixQuick, IntSet, SliceSet, FancySet, MaskSet, IdxForms, MaxNonAll, MaxNonAll3, TargetRank, Lite, LiteOthers, RedSet, Depth, Ctors, RichCtors

VARIABLES objs, mems, nb, hist, lay
vars == <<objs, mems, nb, hist, lay>>
\* cfg files cannot write negative numbers: IntSet <- IntsA / IntsB
IntsA == {0, -1, 1}
IntsB == {0, -1}

RECURSIVE ShapesOfRank(_)
ShapesOfRank(r) == IF r = 0 THEN {<<>>} ELSE {<<e>> \o s : e \in Ext, s \in ShapesOfRank(r - 1)}
\* roots of rank 3 may be restricted to the extents Ext3 (quick tier)
AllShapes == {s \in UNION {ShapesOfRank(r) : r \in 0..MaxRank} : Len(s) < 3 \/ \A j \in DOMAIN s : s[j] \in Ext3}
SmallRoots == {<<>>, <<1>>, <<3>>, <<1, 1>>, <<2, 3>>, <<0>>, <<2, 0>>, <<2, 1, 2>>}
\* roots of the mixed-unit-list instance: up to 4 elements / rows (A-B-B-A orders)
MixedRoots == IF MixQuick THEN {<<3>>, <<4>>, <<3, 2>>} ELSE {<<2>>, <<3>>, <<4>>, <<3, 2>>, <<2, 3>>, <<4, 1>>}
Roots == IF RootSet = "small" THEN SmallRoots ELSE IF RootSet = "mixed" THEN MixedRoots ELSE AllShapes
TargetShapes == {t \in UNION {ShapesOfRank(r) : r \in 0..3} : Len(t) <= TargetRank}
                  \cup {<<n>> : n \in {4, 6, 8, 9, 12, 18, 27}}
                  \cup (IF TargetRank >= 2 THEN {<<2, 2>>, <<1, 4>>, <<6, 1>>, <<1, 6>>, <<3, 2>>, <<2, 3>>, <<4, 1>>, <<2, 6>>, <<9, 1>>} ELSE {})

(* ---- index alphabet ---- *)
AllIt == It("sl", 0, "all")
AxItems(n) ==
  {It("int", i, "") : i \in {x \in IntSet : x < n /\ x >= -n}}
    \cup {It("sl", 0, s) : s \in SliceSet}
    \cup {It("fancy", 0, s) : s \in {f \in FancySet : n >= 1 \/ f = "fe"}}
    \cup {It("mask1", n, s) : s \in MaskSet}
NonAll(t) == Cardinality({j \in DOMAIN t : t[j] # AllIt})
\* mx = how many axes may carry something else than ":" (rank >= 3 objects use MaxNonAll3 in the rich alphabet)
RECURSIVE Tuples(_, _)
Tuples(exts, mx) == IF exts = <<>> THEN {<<>>}
                    ELSE {<<x>> \o t : x \in AxItems(Head(exts)) \cup {AllIt}, t \in {u \in Tuples(Tail(exts), mx) : NonAll(u) <= mx}}
Pre(sh, mx) == UNION {{t \in Tuples(SubSeq(sh, 1, j), mx) : NonAll(t) <= mx /\ (j = 0 \/ t[j] # AllIt)} : j \in 0..Len(sh)}
Suf(sh, mx) == UNION {{t \in Tuples(SubSeq(sh, Len(sh) - j + 1, Len(sh)), mx) : NonAll(t) <= mx /\ t[1] # AllIt} : j \in 1..Len(sh)}
Ell == It("ell", 0, "")
New == It("new", 0, "")
IdxSet(sh, rich) ==
  LET mx == IF ~rich THEN 1 ELSE IF Len(sh) >= 3 THEN MaxNonAll3 ELSE MaxNonAll
      forms == IF rich THEN IdxForms ELSE {"plain", "elllast", "full"} IN
  {x \in
     (IF "plain" \in forms THEN Pre(sh, mx) \cup (IF Len(sh) >= 1 THEN {Fill(Len(sh))} ELSE {}) ELSE {})
     \cup (IF "elllast" \in forms THEN {p \o <<Ell>> : p \in Pre(sh, mx)} ELSE {})
     \cup (IF "ellfirst" \in forms THEN {<<Ell>> \o s : s \in Suf(sh, mx)} ELSE {})
     \cup (IF "newfirst" \in forms THEN {<<New>> \o p : p \in Pre(sh, mx)} ELSE {})
     \cup (IF "newlast" \in forms THEN {p \o <<Ell, New>> : p \in Pre(sh, mx)} ELSE {})
     \cup (IF "full" \in forms THEN {<<It("maskfull", 0, s)>> : s \in MaskSet} \cup {<<It("bool", 1, "")>>, <<It("bool", 0, "")>>} ELSE {})
   : IdxValid(sh, x)}

(* ---- call alphabet of one object ---- *)
\* every call form of copy(): no argument, order= each of NumPy's layouts, and (rich) the positional spelling; whether
\* the data already has the requested layout is decided by the shape / source layout the call meets
CopyForms(rich) == {Op("copy", <<>>, <<>>, s, 0, 0) : s \in CopyOrders}
                     \cup (IF rich THEN {Op("copy", <<>>, <<>>, s, 1, 0) : s \in CopyOrders \ {""}} ELSE {})
OpsRich(o, rich) ==
  LET r == Len(o.sh) IN
  {Op("idx", t, <<>>, "", 0, 0) : t \in IdxSet(o.sh, rich)}
  \cup {Op("iter", <<>>, <<>>, "", a, 0) : a \in 0..1}
  \cup {Op(rs, <<>>, t, "", 0, 0) : rs \in ReshapeOps, t \in {x \in TargetShapes : Size(x) = Size(o.sh)}}
  \cup {Op0(x) : x \in {"T", "transpose", "np_transpose", "ravel", "flatten", "squeeze", "np_squeeze", "atleast_1d", "view", "broadcast_to", "repeat2"}}
  \cup {Op("swapaxes", <<>>, <<>>, "", a, b) : a \in 1..r, b \in 1..r}
  \cup {Op("squeeze_ax", <<>>, <<>>, "", a, 0) : a \in 1..r}
  \cup {Op("expand_dims", <<>>, <<>>, "", a, 0) : a \in 1..(r + 1)}
  \cup {Op0(x) : x \in StripOps \cup CopyStripOps \cup CopyProtoOps \cup {"to_value", "ctor_a_from"} \cup BaseOps}
  \cup CopyForms(TRUE)
  \cup {Op(x, <<>>, <<>>, u, 0, 0) : x \in ConvertOps \cup {"to_value_u"}, u \in Units}
  \cup {Op("red", <<>>, <<>>, f, a, b) : f \in RedSet, a \in 0..r, b \in {0, 1}}
  \cup {Op("cumsum", <<>>, <<>>, "", a, 0) : a \in 0..r}
  \cup {Op("unary", <<>>, <<>>, f, 0, 0) : f \in UnaryFns}
  \cup {Op("bin", <<>>, <<pk>>, f, 0, 0) : f \in BinFns, pk \in {"self", "q", "num", "rnum", "nd", "rnd", "rq", "a1", "nd2"}}
  \cup {Op("arrfn", <<>>, <<>>, f, 0, 0) : f \in ArrFns}
OpsLite(o, rich) ==
  LET r == Len(o.sh) IN
  {Op("idx", t, <<>>, "", 0, 0) : t \in IdxSet(o.sh, rich)}
  \cup {Op("iter", <<>>, <<>>, "", 0, 0)}
  \cup {Op("reshape", <<>>, t, "", 0, 0) : t \in {x \in TargetShapes : Size(x) = Size(o.sh) /\ x # o.sh}}
  \cup {Op0(x) : x \in {"T", "ravel", "flatten", "squeeze", "view", "repeat2", "d", "v", "ctor_a_from", "to_value", "in_base"}}
  \cup CopyForms(FALSE)
  \cup {Op("expand_dims", <<>>, <<>>, "", 1, 0)}
  \cup {Op("in_units", <<>>, <<>>, "m", 0, 0), Op("to", <<>>, <<>>, "km", 0, 0)}
  \cup {Op("red", <<>>, <<>>, "sum", a, 0) : a \in {0, r}}
  \cup {Op("bin", <<>>, <<"self">>, "add", 0, 0), Op("bin", <<>>, <<"num">>, "mul", 0, 0)}
\* the full index alphabet is used on objects built by the constructors in RichCtors
OpsFor(o) == IF Lite THEN OpsLite(o, TRUE)
             ELSE IF lay # "C" THEN OpsLite(o, FALSE)   \* non-C sources: the reduced alphabet (all view-set / copy-set calls)
             ELSE IF hist[1].op \in RichCtors THEN OpsRich(o, TRUE)
             ELSE IF LiteOthers THEN OpsLite(o, FALSE) ELSE OpsRich(o, FALSE)
\* unit patterns of mixed lists: every sequence of length 2 and 3 over a unit family (so A-B-A, A-A-B, A-B-C ...), and
\* the length-4 orders A-B-B-A and A-B-A-B; families: lengths km/m/cm, temperatures K/degC/degF/R (offset units)
RECURSIVE SeqsOver(_, _)
SeqsOver(S, n) == IF n = 0 THEN {<<>>} ELSE {<<x>> \o t : x \in S, t \in SeqsOver(S, n - 1)}
Patterns(S) == SeqsOver(S, 2) \cup SeqsOver(S, 3)
                 \cup UNION {{<<x, y, y, x>> : y \in S \ {x}} : x \in S} \cup UNION {{<<x, y, x, y>> : y \in S \ {x}} : x \in S}
FamSet(f) == {f[i] : i \in DOMAIN f}
MixOpsOf(f) ==
  {Op("mixlist", <<>>, us, form, 0, 0) : us \in Patterns(FamSet(f)), form \in {"list", "tuple"}}
    \cup {Op("mixlist", <<>>, us, "setitem", a, 0) : us \in Patterns(FamSet(f)), a \in DOMAIN f}
MixOps == IF MixRich
          THEN MixOpsOf(LenFam) \cup MixOpsOf(TempFam)
                 \cup {Op("mixlist", <<>>, us, "ufunc", a, 0) : us \in Patterns(FamSet(LenFam)), a \in DOMAIN LenFam}
          ELSE {Op("mixlist", <<>>, us, "list", 0, 0) : us \in {<<"m", "km">>, <<"km", "m">>, <<"cm", "cm">>, <<"cm", "m">>}}
CtorOps == {Op0(c) : c \in (IF lay = "C" THEN Ctors ELSE Ctors \cap LayCtors) \ {"mixlist"}}
             \cup (IF "mixlist" \in Ctors /\ (lay = "C" \/ "mixlist" \in LayCtors) THEN MixOps ELSE {})

\* the roots are partitioned over NSlices parallel TLC runs
SliceOf(sh) == (Len(sh) + SumF([j \in DOMAIN sh |-> (2 * j + 1) * sh[j]], Len(sh))) % NSlices
\* the source ndarray comes in every memory layout that differs from C order for its shape
Init == \E sh \in {x \in Roots : SliceOf(x) = Slice} : \E ly \in {y \in Layouts : LayDistinct(sh, y)} :
          /\ lay = ly
          /\ objs = <<Obj("nd", sh, "", FALSE)>>
          /\ mems = <<Mem(1, 1, LayOffs(sh, ly))>>
          /\ nb = 2
          /\ hist = <<>>

Step(i, op) ==
  /\ Enabled(objs[i], mems[i], op) = TRUE   \* (= TRUE: evaluate as an expression, not as an action disjunction)
  /\ LET r == Res(objs[i], mems[i], op) IN
       /\ objs' = Append(objs, r.o)
       /\ mems' = Append(mems, IF r.exc THEN Mem(0, 0, <<>>) ELSE NewMem(mems[i], r.cls, r.lpos, Size(r.o.sh), nb))
  /\ nb' = nb + 1 /\ lay' = lay
  /\ hist' = Append(hist, [op EXCEPT !.src = i])

Next ==
  /\ Len(hist) < Depth
  /\ \/ \E op \in CtorOps : Step(1, op)
     \/ \E i \in 2..Len(objs) : \E op \in OpsFor(objs[i]) : Step(i, op)
Spec == Init /\ [][Next]_vars

\* model-level verdict: calls of this history whose (transcribed) result breaks the class rule
ModelBad == {[op |-> hist[l].op, s |-> hist[l].s, srck |-> objs[hist[l].src].k, k |-> objs[l + 1].k, sh |-> objs[l + 1].sh] :
               l \in {x \in DOMAIN hist : ~C16_Class(objs[hist[x].src], hist[x], objs[x + 1])}}
Export == Len(hist) = Depth => PrintT(ToJson([tag |-> "H", root |-> objs[1].sh, lay |-> lay, h |-> hist, bad |-> ModelBad]))
\* every history up to Depth (used by the simulator: families of successors of the last state)
ExportAny == Len(hist) >= 2 => PrintT(ToJson([tag |-> "H", root |-> objs[1].sh, lay |-> lay, h |-> hist, bad |-> ModelBad]))
=============================================================================
