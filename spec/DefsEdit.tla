------------------------------- MODULE DefsEdit -------------------------------
(* C02 across registry edits of DEFAULT symbols, through every spelling.      *)
(*                                                                            *)
(* A registry keeps a memo string -> Unit.  After reg.modify / reg.add over / *)
(* reg.remove of a table symbol, every accepted spelling of that symbol - the *)
(* symbol itself, each listed / title-case / unicode alias, the % and degree  *)
(* rewrites, kilo forms (symbol and prefix word + alias), and a compound of   *)
(* each - must have the scale the CURRENT definition implies, whether or not  *)
(* the spelling was resolved before the edit (warm memo) and whether or not   *)
(* it contains the symbol as a substring.  A case: table symbol t, which      *)
(* spellings are resolved before the edit (none / all / one of them), the     *)
(* edit (new definition = coef x the definition of t), optionally a second    *)
(* modify after everything was resolved once.  Prefixed forms are never       *)
(* resolved before an edit (the derived rows they write back belong to C12).  *)
EXTENDS DefsMore

EditOps == <<"modify", "addover", "remove">>
\* canonical key of the bare symbol, its spellings, and the spellings of its kilo form
SymKeyOf(t) == IF \E k \in DOMAIN Keys : KeyRead[k] = <<0, t>> THEN CHOOSE k \in DOMAIN Keys : KeyRead[k] = <<0, t>> ELSE 0
KiloIdx == IF \E p \in DOMAIN Prefixes : Prefixes[p].p = "k" THEN CHOOSE p \in DOMAIN Prefixes : Prefixes[p].p = "k" ELSE 0
SpellTab == [t \in DOMAIN Table |-> LET k == SymKeyOf(t) IN {n \in DOMAIN Names : Names[n].key = k /\ Len(Names[n].name) > 0}]
KiloTab == LET ki == KiloIdx IN
           [t \in DOMAIN Table |-> IF Table[t].pfx /\ ki # 0 THEN {n \in DOMAIN Names : KeyRead[Names[n].key] = <<ki, t>>} ELSE {}]
HasAlias(t) == \E n \in SpellTab[t] : Names[n].name # Table[t].sym
\* the symbols the SI base units are spelled with (m, g -> kg, s, K, A, cd, rad): the detour via in_base("mks") would
\* resolve a prefixed form of the edited symbol itself (kg), which is C12's derived-row matter
IsBaseSym(t) == LET nd == Nodes[TabNode[t]] IN Len(nd.of) = 1 /\ IsBase(nd.of[1][1]) /\ GenCls(nd.gens) = 0 /\ nd.cls = 0
Logarithmic(t) == DefDim(t)[NB] # RZero
\* symbols whose edits are generated: defined, with at least one alias; add-over only without offset
EditRows == {t \in DOMAIN Table : TabNode[t] # 0 /\ SymKeyOf(t) # 0 /\ HasAlias(t) /\ Table[t].sym # "dimensionless"}
OpOk(t, op) == op # "addover" \/ ~Table[t].off
\* a compound of the spelling ( (w)**2 ) is probed when powers are allowed
SqOk(t) == ~Table[t].off /\ ~Logarithmic(t)

\* the definition after the edits: [on, gens]; c = coefficient index (Coefs), c2 = 0 or the coefficient of a second modify
DefAfter(t, op, c) == [on |-> op # "remove", gens |-> VAdd(CoefVec(c), ExpGens(0, t))]
DefAfter2(t, op, c, c2) == IF op = "remove" \/ c2 = 0 THEN DefAfter(t, op, c) ELSE [on |-> TRUE, gens |-> VAdd(CoefVec(c2), ExpGens(0, t))]
Second2Ok(op) == op # "remove"     \* a modify of a removed symbol raises
\* what a probe of spelling n in form f ("name" | "sq") must have while the definition is d
ProbeGens(d, n, f) == LET g == VAdd(d.gens, Ten(PfxExp(KeyRead[Names[n].key][1]))) IN IF f = "sq" THEN VScale(g, <<2, 1>>) ELSE g
ProbeDim(t, f) == IF f = "sq" THEN Dense(VScale(FlatTab[TabNode[t]].a, <<2, 1>>)) ELSE DefDim(t)

\* the symbolic scale of a probe: bare or kilo spelling, the name itself or its square
Four(d) == LET k == VAdd(d.gens, Ten(3)) IN [name |-> d.gens, sq |-> VScale(d.gens, <<2, 1>>), kname |-> k, ksq |-> VScale(k, <<2, 1>>)]

\* ---- property predicates
\* an accepted spelling has the scale the current definition implies (exact class: the new value is an exact multiple)
C02_EditScale(eu) == eu[1] <= 3
\* two spellings of one symbol convert with 10^k; the detour via SI gives the scale
C02_EditConvert(eu) == eu[1] <= 4
=============================================================================
