------------------------------- MODULE MC_C19 -------------------------------
(* Bounded single-step instance of Helpers for C19 (closeness / equality     *)
(* family).  TLC enumerates the cases, computes for each the implementation-  *)
(* shaped outcome T(c), the property verdict on that outcome (model-level     *)
(* counterexamples) and the physical identity used by the re-expression       *)
(* clause, and exports them.  Profiles:                                       *)
(*   tol   quantity x quantity, every unit pair of the dyadic registry x      *)
(*         rtol/atol spellings (bare, dimensionless, scaled dimensionless,    *)
(*         commensurable in a third unit, incommensurable) x value grid       *)
(*         straddling every tolerance reading                                 *)
(*   kind  every pair of operand kinds x all seven helpers x a few unit pairs *)
(*   real  km/m/cm/inch, s/ms, dimensionless/percent, K/degC (off the         *)
(*         tolerance boundary by a relative margin: floats are inexact there) *)
EXTENDS Helpers
CONSTANTS Tier     \* "quick" | "thorough"
VARIABLE c
Thorough == Tier = "thorough"

Tol(k, u, v) == [k |-> k, u |-> u, v |-> v]
BareTol(v) == Tol("bare", "", v)
Zero == BareTol(RZero)

FromSI(S, u) == QDiv(QSub(S, R(UOff(u))), UScale(u))
\* an operand of kind k whose elements have base magnitudes Sv: written in unit u (second list element in u2); the
\* numbers of a bare operand are those it would have in unit g
Operand(k, u, u2, g, Sv) ==
  LET n == IF k \in ScalarKinds THEN 1 ELSE 2
      un(i) == IF k \in BareKinds THEN "bare" ELSE IF k = "lst" /\ i = 2 THEN u2 ELSE u
      gen(i) == IF k \in BareKinds THEN g ELSE un(i) IN
  [x |-> [i \in 1..n |-> FromSI(Sv[i], gen(i))], u |-> [i \in 1..n |-> un(i)]]
Mk(h, reg, ka, kd, ua, ua2, ud, ga, gd, D, E, pos, rt, at) ==
  LET A == QAdd(D, E)
      Av == IF ka \in ScalarKinds THEN <<A>> ELSE IF pos = 1 THEN <<A, D>> ELSE <<D, A>>
      Dv == IF kd \in ScalarKinds THEN <<D>> ELSE <<D, D>>
      oa == Operand(ka, ua, ua2, ga, Av)
      od == Operand(kd, ud, ud, gd, Dv)
      c0 == [helper |-> h, reg |-> reg, ka |-> ka, kd |-> kd, a |-> oa.x, au |-> oa.u, d |-> od.x, du |-> od.u, rt |-> rt, at |-> at]
      t == T(c0) IN
  c0 @@ [t |-> t, mp |-> P(c0, t), phys |-> PhysKey(c0)]

(* ---------------- dyadic registry: tolerance spellings x unit pairs ---------------- *)
DyUnits == UnitsOf("dy")
RtDy == {Zero, BareTol(<<1, 16>>), Tol("q", "na", <<1, 16>>), Tol("q", "nq", <<1, 1>>), Tol("q", "nq", <<1, 4>>), Tol("q", "la", <<1, 16>>)}
AtDy == {Zero, BareTol(<<1, 2>>)} \cup {Tol("q", u, <<1, 2>>) : u \in DyUnits} \cup (IF Thorough THEN {BareTol(<<48, 1>>), Tol("q", "lc", <<48, 1>>)} ELSE {})
TolCombos == IF Thorough THEN ({Zero} \X AtDy) \cup (RtDy \X {Zero, BareTol(<<1, 2>>), Tol("q", "lb", <<1, 2>>), Tol("q", "lc", <<48, 1>>)})
             ELSE ({Zero} \X AtDy) \cup (RtDy \X {Zero})
                  \cup {<<Tol("q", "nq", <<1, 1>>), BareTol(<<1, 2>>)>>, <<BareTol(<<1, 16>>), BareTol(<<1, 2>>)>>, <<BareTol(<<1, 16>>), Tol("q", "lb", <<1, 2>>)>>}
NpTolCombos == {<<Zero, Zero>>, <<BareTol(<<1, 16>>), Zero>>, <<Zero, BareTol(<<1, 2>>)>>, <<BareTol(<<1, 16>>), BareTol(<<1, 2>>)>>}
DGrid == IF Thorough THEN {R(2048), R(-3072), RZero} ELSE {R(2048), R(-3072)}
EGrid == IF Thorough THEN {RZero, <<3, 4>>, R(6), R(-6), R(48), R(-48), R(384), R(-384), R(768), R(-768), R(3072), R(-3072), R(24576)}
         ELSE {RZero, <<3, 4>>, R(-6), R(48), R(-384), R(768), R(-3072), R(24576)}
IncommPairs == IF Thorough THEN {p \in DyUnits \X DyUnits : UDim(p[1]) # UDim(p[2])}
               ELSE {<<"la", "ta">>, <<"tb", "lb">>, <<"la", "na">>, <<"nq", "lc">>, <<"ta", "na">>, <<"nq", "tb">>}
CommPairs == {p \in DyUnits \X DyUnits : UDim(p[1]) = UDim(p[2])}
TolCase ==
  \E h \in CloseHelpers, p \in CommPairs \cup IncommPairs, D \in DGrid, E \in EGrid :
  \E tc \in (IF h \in UnytHelpers THEN TolCombos ELSE NpTolCombos) :
    /\ (UDim(p[1]) # UDim(p[2]) => D = R(2048) /\ E \in {RZero, R(48)})
    /\ c' = Mk(h, "dy", "q", "q", p[1], p[1], p[2], "na", "na", D, E, 1, tc[1], tc[2])

(* ---------------- operand kinds x helpers ---------------- *)
KindUnitPairs == {<<"la", "la">>, <<"la", "lb">>, <<"lb", "la">>, <<"lb", "ld">>, <<"la", "ta">>, <<"na", "nq">>, <<"na", "na">>}
                 \cup (IF Thorough THEN {<<"lc", "lb">>, <<"nq", "na">>, <<"tb", "ta">>, <<"na", "la">>, <<"la", "na">>, <<"nq", "la">>} ELSE {})
KindTol(h) == IF h \in EqualHelpers THEN {<<Zero, Zero>>}
              ELSE {<<Zero, Zero>>, <<Zero, BareTol(<<1, 2>>)>>, <<BareTol(<<1, 16>>), Zero>>}
KindE == IF Thorough THEN {RZero, R(48), R(-384), R(3072)} ELSE {RZero, R(48), R(3072)}
\* numpy's own code decides when neither operand is a unyt object: not a statement about unyt
Dispatches(h, ka, kd) == h \in UnytHelpers \/ h = "assert_array_equal_units" \/ ka \in {"q", "arr"} \/ kd \in {"q", "arr"}
KindCase ==
  \E h \in CloseHelpers \cup EqualHelpers, ka \in Kinds, kd \in Kinds, p \in KindUnitPairs, E \in KindE, pos \in 1..2 :
  \E tc \in KindTol(h), mixed \in BOOLEAN :
    LET ua2 == IF mixed THEN (IF p[1] = "la" THEN "lc" ELSE IF p[1] = "lb" THEN "la" ELSE p[1]) ELSE p[1]
        \* numbers of a bare operand: those it would have in the other operand's unit (np.*: adoption) or plain numbers
        ga == IF h \in UnytHelpers \cup EqualHelpers THEN "na" ELSE IF kd \in BareKinds THEN "na" ELSE p[2]
        gd == IF h \in UnytHelpers \cup EqualHelpers THEN "na" ELSE IF ka \in BareKinds THEN "na" ELSE p[1] IN
    /\ Dispatches(h, ka, kd)
    /\ (pos = 2 => ka \notin ScalarKinds)
    /\ (mixed => ka = "lst" /\ ua2 # p[1] /\ h \notin EqualHelpers)
    /\ c' = Mk(h, "dy", ka, kd, p[1], ua2, p[2], ga, gd, R(2048), E, pos, tc[1], tc[2])

(* ---------------- real units ---------------- *)
ReUnitPairs == {<<"m", "km">>, <<"km", "m">>, <<"inch", "cm">>, <<"cm", "inch">>, <<"km", "inch">>, <<"m", "m">>, <<"s", "ms">>, <<"ms", "s">>,
                <<"m", "s">>, <<"dimensionless", "percent">>, <<"percent", "dimensionless">>, <<"inch", "ms">>}
ReTol == {<<Zero, Zero>>, <<BareTol(<<1, 100>>), Zero>>, <<Zero, BareTol(<<1, 2>>)>>, <<BareTol(<<1, 100>>), BareTol(<<1, 2>>)>>}
ReTolQ == {<<Tol("q", "percent", R(5)), Zero>>, <<Tol("q", "dimensionless", <<1, 100>>), Zero>>, <<Zero, Tol("q", "cm", <<1, 2>>)>>, <<Zero, Tol("q", "km", <<1, 2>>)>>,
           <<Zero, Tol("q", "inch", R(50))>>, <<Zero, Tol("q", "s", <<1, 2>>)>>, <<Tol("q", "m", <<1, 100>>), Zero>>, <<Tol("q", "percent", R(5)), BareTol(<<1, 2>>)>>}
ReD == {R(25400), R(-50800)} \cup (IF Thorough THEN {RZero} ELSE {})
ReE == {RZero, R(127), R(-2540), R(5080), R(-101600), R(2032000)} \cup (IF Thorough THEN {R(-127), R(2540), R(-5080), R(101600), R(635), R(-38100)} ELSE {})
\* floats are inexact on real units: keep every reading of the tolerance away from |E| by a relative margin
AwayFrom(E, tol) == IF RIsZero(E) THEN ~RIsZero(tol)
                    ELSE QLe(QMul(R(4), tol), QMul(R(3), RAbs(E))) \/ QLe(QMul(R(4), RAbs(E)), QMul(R(3), tol))
MarginOk(cc, E) ==
  LET fa == EUa(cc)  fd == EUd(cc) IN
  (Commens(fa, fd) /\ AtolOk(cc, UDim(fa[1]))) =>
    \A ref \in {fa[1], fd[1]}, r \in {RtolPhys(cc), RtolRaw(cc)}, i \in 1..N(cc) :
      AwayFrom(E, QAdd(AtolSI(cc, ref), QMul(r, RAbs(SI(El(cc.d, i), El(fd, i))))))
\* the straddling element is off every boundary (or is the same float on both sides); so are the equal elements of arrays
FloatSafe(cc, E, p) == /\ MarginOk(cc, E) \/ (RIsZero(E) /\ SameUnit(p[1], p[2]))
                       /\ N(cc) = 1 \/ SameUnit(p[1], p[2]) \/ MarginOk(cc, RZero)
RealCase ==
  \E h \in CloseHelpers \cup EqualHelpers, p \in ReUnitPairs, D \in ReD, E \in ReE, ks \in {<<"q", "q">>, <<"arr", "arr">>, <<"arr", "q">>, <<"lst", "arr">>} :
  \E tc \in (IF h \in UnytHelpers THEN ReTol \cup ReTolQ ELSE IF h \in EqualHelpers THEN {<<Zero, Zero>>} ELSE ReTol) :
    LET cc == Mk(h, "re", ks[1], ks[2], p[1], p[1], p[2], "dimensionless", "dimensionless", D, E, 1, tc[1], tc[2]) IN
    /\ (UDim(p[1]) # UDim(p[2]) => D = R(25400) /\ E \in {RZero, R(127)})
    /\ (~Thorough => ks \in {<<"q", "q">>, <<"arr", "q">>})
    /\ (h \in CloseHelpers => FloatSafe(cc, E, p))
    /\ c' = cc
\* offset temperature scales: differences only (rtol = 0; atol bare, i.e. a number of degrees of either scale, or in K
\* is NOT generated: what an atol "of 1 K" means for readings in degC is C08's subject)
TempPairs == {<<"K", "degC">>, <<"degC", "K">>, <<"degC", "degC">>, <<"K", "K">>}
TempCase ==
  \E h \in CloseHelpers \cup EqualHelpers, p \in TempPairs, E \in {RZero, R(25), R(-75), R(27315), R(-27315)}, at \in {Zero, BareTol(<<1, 2>>)}, ks \in {<<"q", "q">>, <<"arr", "arr">>} :
    LET cc == Mk(h, "re", ks[1], ks[2], p[1], p[1], p[2], "dimensionless", "dimensionless", R(28315), E, 1, Zero, at) IN
    /\ (h \in EqualHelpers => at = Zero)
    /\ (h \in CloseHelpers => FloatSafe(cc, E, p))
    /\ c' = cc

Init == c = <<>>
Next == c = <<>> /\ (TolCase \/ KindCase \/ RealCase \/ TempCase)
Export == c # <<>> => PrintT(ToJson([tag |-> "CASE", c |-> c]))
=============================================================================
