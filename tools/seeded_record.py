#!/usr/bin/env python3
"""usage: tools/seeded_record.py <seeded-id> <Cxx[,Cyy]> <caught|missed> "<what I ran and saw>"
Adds the coordinator's confirmation record to seeded/<id>/meta.json (keeps the author's fields)."""
import json, sys, os
sid, checks, verdict, ran = sys.argv[1:5]
p = os.path.join(os.path.dirname(os.path.dirname(os.path.abspath(__file__))), "seeded", sid, "meta.json")
m = json.load(open(p))
m.setdefault("property", sid[:3])
m["checks"] = checks.split(",")
m["confirmed"] = {"suite": "652 passed / same 28 failures (tools/mutant_tests.sh on a scratch copy)", "demo": "exit 0 on the unchanged tree, exit 1 with the change"}
m.setdefault("history", []).append({"verdict": verdict, "ran": ran})
m["status"] = verdict
json.dump(m, open(p, "w"), indent=1)
print(sid, verdict)
