------------------------------- MODULE DType -------------------------------
(* Data types through unit conversion and mixed-unit arithmetic (C17).        *)
(*                                                                            *)
(* Transition side (implementation shaped, same branch order as the code):    *)
(*   CopyOut      unyt_array.in_units / to / to_equivalent(same dimension)    *)
(*                (array.py in_units: dsize = max(2, itemsize), LARGE_INPUT   *)
(*                warning, kind c|f, np.asarray(v * factor, new_dtype))       *)
(*   ToValueOut   to_value = in_units(...).value, float(v) on a quantity      *)
(*   InBaseOut    in_base / in_mks: self.v * conv (NumPy promotion with a     *)
(*                Python float), no LARGE_INPUT test                          *)
(*   InPlaceOut   convert_to_units / convert_to_base / convert_to_mks /       *)
(*                convert_to_equivalent(same dimension): 1-byte integers      *)
(*                raise, other integers: astype(f<itemsize>) then relabel the *)
(*                buffer, then `values *= factor`                             *)
(*   UfuncOut     __array_ufunc__, binary branch with u0 != u1 of the same    *)
(*                dimension: out= integer buffers retyped first, operand 1    *)
(*                becomes asarray(inp1, "f<itemsize>") * conv, NumPy result   *)
(*                type of (operand 0, that float), comparisons give bool      *)
(*                                                                            *)
(* Property side (operators named C17...): only what the statement says.     *)
(*                                                                            *)
(* Numbers: conversion factors are powers of two (model registry m = 2^0,     *)
(* la = 2^10, lc = 2^-3), so exact results are dyadic rationals.  Values too  *)
(* large for TLC's 32-bit integers are *value classes* (ids); the harness     *)
(* makes them concrete and reports, per element, whether the observed number  *)
(* equals the exact rational result rounded (round-to-nearest-even, exact     *)
(* Fraction arithmetic) to a given float type.  TLC computes the expected     *)
(* value itself for the small classes and decides every clause.               *)
EXTENDS Rational, Sequences, FiniteSets, TLC, Json

\* The transitions transcribe /repo HEAD.  Each proposed repair (fixes/C17-*.patch) has its transcription
\* behind a switch, so that T stays exact once a repair is committed: the instance overrides Fixes
\* (harness/c17.py TREE_FIXES).  "large": LARGE_INPUT {2: 2^11+1, ...} tested with >= and looked up by
\* item size; "inbase": in_base returns in_units(base units); "complexop": a complex operand 1 is cast to
\* the complex type of its item size; "inplace": the in-place float image is asarray(values * factor);
\* "tovalue": to_value of a complex quantity returns complex(v); "ufuncscale": an integer operand 1 of a
\* mixed-unit ufunc is scaled in double precision before it is narrowed to the float of its item size.
Fixes == {}

\* ---------------------------------------------------------------- dtypes
AllDTypes == {"i1", "i2", "i4", "i8", "u1", "u2", "u4", "u8", "f2", "f4", "f8", "f16", "c8", "c16", "c32"}
Kind(d) == SubSeq(d, 1, 1)
SizeStr(d) == SubSeq(d, 2, Len(d))
Size(d) == CASE SizeStr(d) = "1" -> 1 [] SizeStr(d) = "2" -> 2 [] SizeStr(d) = "4" -> 4
             [] SizeStr(d) = "8" -> 8 [] SizeStr(d) = "16" -> 16 [] SizeStr(d) = "32" -> 32
IsInt(d) == Kind(d) \in {"i", "u"}
IsSigned(d) == Kind(d) = "i"
IsFloat(d) == Kind(d) = "f"
IsComplex(d) == Kind(d) = "c"
Max2(a, b) == IF a >= b THEN a ELSE b
\* size of one real component when the data are held in floating point
CompOf(kind, size) == IF kind = "c" THEN size \div 2 ELSE IF kind = "f" THEN size ELSE 0
Comp(d) == IF IsInt(d) THEN Max2(2, Size(d)) ELSE CompOf(Kind(d), Size(d))
\* the type the statement demands for converted data of dtype d
Want(d) == IF IsInt(d) THEN [kind |-> "f", size |-> Max2(2, Size(d))] ELSE [kind |-> Kind(d), size |-> Size(d)]
\* significand bits and largest binary exponent of a float with components of `cs` bytes
Prec(cs) == CASE cs = 2 -> 11 [] cs = 4 -> 24 [] cs = 8 -> 53 [] cs = 16 -> 64 [] OTHER -> 0
EMax(cs) == CASE cs = 2 -> 15 [] cs = 4 -> 127 [] cs = 8 -> 1023 [] cs = 16 -> 16383 [] OTHER -> 0
\* number of one-bits of the largest value of an integer dtype
MaxBits(d) == 8 * Size(d) - (IF IsSigned(d) THEN 1 ELSE 0)

\* ---------------------------------------------------------------- units
\* model registry: index -> binary exponent of the scale (1 m, 2 la, 3 lc)
\* 11 = lnd: same scale as la, but registered with an np.float64 base value (a strongly typed NumPy scalar)
\* 21 K, 22 tc, 23 tf: temperatures with an OFFSET, dyadic: K = (v - off) * 2^exp with tc = (exp 0, off -33/2),
\* tf = (exp -1, off -17/4) - the model's degC / degF (round 7)
UnitExp(u) == CASE u = 1 -> 0 [] u = 2 -> 10 [] u = 3 -> -3 [] u = 11 -> 10 [] u = 21 -> 0 [] u = 22 -> 0 [] u = 23 -> -1
UnitOff(u) == CASE u = 22 -> <<-33, 2>> [] u = 23 -> <<-17, 4>> [] OTHER -> RZero
\* units of the default registry (non-dyadic factors, or table values held as np.float64 / int): decimal
\* exponent used only to order them (is the factor from -> to above or below one?)
\* 4 km, 5 mile, 6 cm, 7 mm, 8 Mm, 9 ym, 10 Ym, 12 l_pl (np.float64), 13 Wh (int), 14 J, 15 dB (np.float64), 16 B (np.float64)
\* 17 N, 18 kg*m/s**2 (the same scale under another name), 19 degC, 20 degF, 21 K (offsets), 24 dyn, 25 g*cm/s**2
\* electromagnetic units (round 7b): 26 A, 27 statA, 28 mA, 29 T, 30 G, 31 kV, 32 V, 33 uC, 34 C
EMUnits == 26..34
RealRank(u) == CASE u \in {17, 18, 21, 24, 25, 26, 29, 32, 34} -> 0 [] u = 27 -> -95 [] u = 28 -> -30 [] u = 30 -> -40 [] u = 31 -> 30 [] u = 33 -> -60 [] u = 19 -> 1 [] u = 20 -> -1 [] u = 1 -> 0 [] u = 4 -> 30 [] u = 5 -> 32 [] u = 6 -> -20 [] u = 7 -> -30 [] u = 8 -> 60 [] u = 9 -> -240
                 [] u = 10 -> 240 [] u = 12 -> -350 [] u = 13 -> 36 [] u = 14 -> 0 [] u = 15 -> -10 [] u = 16 -> 0
RealDir(from, to) == IF RealRank(from) > RealRank(to) THEN 1 ELSE -1
Factor(from, to) == UnitExp(from) - UnitExp(to)
RECURSIVE Pow2Nat(_)
Pow2Nat(n) == IF n = 0 THEN 1 ELSE 2 * Pow2Nat(n - 1)
Pow2(k) == IF k >= 0 THEN <<Pow2Nat(k), 1>> ELSE <<1, Pow2Nat(-k)>>
\* what a conversion adds after scaling: v_to = v_from * 2^Factor + Shift (unit_object._get_conversion_factor
\* returns (ratio, ratio * old_offset - new_offset) and the routes subtract that)
Shift(from, to) == RSub(UnitOff(to), RMul(Pow2(Factor(from, to)), UnitOff(from)))

\* ---------------------------------------------------------------- value classes
\* integer classes: s3 = 3, n5 = -5, e11 = 2^11+1, e24 = 2^24+1, g24 = 2^24+3, e53 = 2^53+1,
\* g53 = 2^53+3, max / min = limits of the dtype, nmax = -max
\* float classes: h = 3/2, ng = -11/4, ulp = 1 + one unit in the last place of the dtype
\* complex classes: z = 3/2 + 5/2 j, zu = (1 + ulp) - 3 j
IntClasses == {"z0", "s3", "n5", "e11", "e24", "g24", "e53", "g53", "max", "min", "nmax"}
FloatClasses == {"h", "ng", "ulp"}
ComplexClasses == {"z", "zu"}
Applies(vc, d) ==
  CASE vc \in {"s3", "z0"} -> IsInt(d)
    [] vc = "n5" -> IsSigned(d)
    [] vc = "e11" -> IsInt(d) /\ Size(d) >= 2
    [] vc \in {"e24", "g24"} -> IsInt(d) /\ Size(d) >= 4
    [] vc \in {"e53", "g53"} -> IsInt(d) /\ Size(d) >= 8
    [] vc = "max" -> IsInt(d)
    [] vc \in {"min", "nmax"} -> IsSigned(d)
    [] vc \in FloatClasses -> IsFloat(d)
    [] vc \in ComplexClasses -> IsComplex(d)
    [] OTHER -> FALSE
\* the small sentinel that accompanies the value in two-element arrays
BaseClass(d) == IF IsInt(d) THEN "s3" ELSE IF IsFloat(d) THEN "h" ELSE "z"
Elems(vc, d, shape) == IF shape = "q" THEN <<vc>> ELSE <<BaseClass(d), vc>>
\* classes whose value TLC holds exactly: <<re, im>> of rationals
IsSmall(vc) == vc \in {"z0", "s3", "n5", "e11", "h", "ng", "z"}
SmallVal(vc) == CASE vc = "z0" -> <<RZero, RZero>> [] vc = "s3" -> <<R(3), RZero>> [] vc = "n5" -> <<R(-5), RZero>> [] vc = "e11" -> <<R(2049), RZero>>
                  [] vc = "h" -> <<<<3, 2>>, RZero>> [] vc = "ng" -> <<<<-11, 4>>, RZero>> [] vc = "z" -> <<<<3, 2>>, <<5, 2>>>>

\* is the integer of class vc (at dtype d) exactly representable in a float with components of cs bytes?
RepIn(vc, d, cs) ==
  CASE vc \in {"z0", "s3", "n5"} -> TRUE
    [] vc = "e11" -> Prec(cs) >= 12
    [] vc \in {"e24", "g24"} -> Prec(cs) >= 25
    [] vc \in {"e53", "g53"} -> Prec(cs) >= 54
    [] vc \in {"max", "nmax"} -> MaxBits(d) <= Prec(cs)
    [] vc = "min" -> 8 * Size(d) - 1 <= EMax(cs)
    [] OTHER -> TRUE

\* np.any(np.abs(values) > LARGE_INPUT[ds]) with LARGE_INPUT = {4: 2^24+1, 8: 2^53+1}; np.abs of the
\* most negative integer wraps to itself (negative), so "min" never exceeds the threshold
AbsGtLarge(vc, d, ds) ==
  IF ds = 4 THEN vc \in {"g24", "e53", "g53"} \/ (vc \in {"max", "nmax"} /\ MaxBits(d) > 24)
  ELSE IF ds = 8 THEN vc = "g53" \/ (vc \in {"max", "nmax"} /\ MaxBits(d) > 53)
  ELSE FALSE
\* repaired table ("large"): thresholds 2^11+1 / 2^24+1 / 2^53+1 by item size, inclusive
AbsGeLarge(vc, d, s) ==
  IF s = 2 THEN vc = "e11" \/ (vc \in {"max", "nmax"} /\ MaxBits(d) > 11)
  ELSE IF s = 4 THEN vc \in {"e24", "g24", "e53", "g53"} \/ (vc \in {"max", "nmax"} /\ MaxBits(d) > 24)
  ELSE IF s = 8 THEN vc \in {"e53", "g53"} \/ (vc \in {"max", "nmax"} /\ MaxBits(d) > 53)
  ELSE FALSE
AnyLarge(vcs, d, ds) == \E i \in DOMAIN vcs : IF "large" \in Fixes THEN AbsGeLarge(vcs[i], d, Size(d)) ELSE AbsGtLarge(vcs[i], d, ds)

\* ---------------------------------------------------------------- conversion routes (transitions)
CopyRoutes == {"to", "in_units", "to_equivalent", "to_value", "in_base", "in_mks", "in_cgs"}
InPlaceRoutes == {"convert_to_units", "convert_to_equivalent", "convert_to_base", "convert_to_mks", "convert_to_cgs"}
\* copy route -> its in-place twin
Twin(r) == CASE r \in {"to", "in_units", "to_value"} -> "convert_to_units"
             [] r = "to_equivalent" -> "convert_to_equivalent"
             [] r = "in_base" -> "convert_to_base"
             [] r = "in_mks" -> "convert_to_mks"
             [] r = "in_cgs" -> "convert_to_cgs"
Ret(kind, size, py, warn, vok) == [raise |-> FALSE, kind |-> kind, size |-> size, py |-> py, warn |-> warn, vok |-> vok]
Raise == [raise |-> TRUE, kind |-> "", size |-> 0, py |-> FALSE, warn |-> FALSE, vok |-> TRUE]

\* in_units: dsize = max(2, itemsize); LARGE_INPUT warning for integers; kind c|f
CopyOut(d, vcs) ==
  LET ds == Max2(2, Size(d)) IN
  Ret(IF IsComplex(d) THEN "c" ELSE "f", ds, FALSE, IsInt(d) /\ AnyLarge(vcs, d, ds), TRUE)
\* to_value: in_units(...).value; a quantity goes through float(): complex64/128 refuse,
\* clongdouble loses the imaginary part
ToValueOut(d, vcs, shape) ==
  LET c == CopyOut(d, vcs) IN
  IF shape # "q" THEN c
  ELSE IF IsComplex(d) /\ "tovalue" \in Fixes THEN [c EXCEPT !.kind = "c", !.size = 16, !.py = TRUE]
  ELSE IF IsComplex(d) /\ Size(d) <= 16 THEN Raise
  ELSE [c EXCEPT !.kind = "f", !.size = 8, !.py = TRUE, !.vok = ~IsComplex(d)]
\* in_base: self.v * conv with conv a Python float (integers -> float64, floats and complex keep their type)
InBaseOut(d, vcs) == IF "inbase" \in Fixes THEN CopyOut(d, vcs)
                     ELSE IF IsInt(d) THEN Ret("f", 8, FALSE, FALSE, TRUE) ELSE Ret(Kind(d), Size(d), FALSE, FALSE, TRUE)
\* convert_to_units: integers of one byte refuse; others astype("f<itemsize>"), relabel, multiply in place.
\* The astype happens before the multiplication: uint16 values above the float16 range become inf even
\* when the converted value would fit (vok = FALSE for that class)
InPlaceOut(d, vcs, k) ==
  IF IsInt(d) THEN
    IF Size(d) = 1 THEN Raise
    ELSE Ret("f", Size(d), FALSE, AnyLarge(vcs, d, Size(d)),
             "inplace" \in Fixes \/ ~(d = "u2" /\ k < 0 /\ \E i \in DOMAIN vcs : vcs[i] = "max"))
  ELSE Ret(Kind(d), Size(d), FALSE, FALSE, TRUE)
ConvOut(route, d, vcs, k, shape) ==
  CASE route \in {"to", "in_units", "to_equivalent"} -> CopyOut(d, vcs)
    [] route = "to_value" -> ToValueOut(d, vcs, shape)
    [] route \in {"in_base", "in_mks", "in_cgs"} -> InBaseOut(d, vcs)
    [] route \in InPlaceRoutes -> InPlaceOut(d, vcs, k)

\* E&M units reach in_base / in_mks / in_cgs through a branch of their own (unyt_array.in_base, `if any(conv_data)`):
\* data already in the system's unit come back as self.copy() (dtype untouched), everything else as
\* type(self)(self.v * conv, to_units) - integers become float64, no LARGE_INPUT test.  Repair "embase": that branch
\* ends in in_units(to_units) like the other one.  All other routes treat E&M pairs like any pair.
ConvOutEM(route, d, vcs, k, shape, em, ident) ==
  IF em /\ route \in {"in_base", "in_mks", "in_cgs"} /\ "embase" \notin Fixes THEN
     (IF ident THEN Ret(Kind(d), Size(d), FALSE, FALSE, TRUE)
      ELSE IF IsInt(d) THEN Ret("f", 8, FALSE, FALSE, TRUE) ELSE Ret(Kind(d), Size(d), FALSE, FALSE, TRUE))
  ELSE ConvOut(route, d, vcs, k, shape)

\* ---------------------------------------------------------------- binary ufuncs (transitions)
ArithOps == {"add", "subtract", "maximum", "minimum"}
CmpOps == {"less", "greater", "equal", "not_equal", "less_equal", "greater_equal"}
\* smallest float that NumPy pairs with an integer dtype
IntAsFloat(d) == CASE Size(d) = 1 -> 2 [] Size(d) = 2 -> 4 [] OTHER -> 8
\* NumPy result type of (operand of dtype d0, real float of fs bytes)
Promote(d0, fs) ==
  IF IsInt(d0) THEN [kind |-> "f", size |-> Max2(IntAsFloat(d0), fs)]
  ELSE IF IsFloat(d0) THEN [kind |-> "f", size |-> Max2(Size(d0), fs)]
  ELSE [kind |-> "c", size |-> 2 * Max2(Size(d0) \div 2, fs)]
\* out: "none", "inplace" (operand 0 is the output buffer) or the dtype of a separate buffer
OutDType(out, d0) == IF out = "inplace" THEN d0 ELSE out
\* do the values come out as the statement demands?  Two deviations of today's code are transcribed:
\* the imaginary part of a complex operand 1 is dropped by the cast to a real float; a uint16 operand 1
\* above the float16 range overflows in the cast, before the scaling (x1 = inf instead of 65535 * 2^k)
OverflowU2(d1, vc1, k) == d1 = "u2" /\ vc1 = "max" /\ k < 0 /\ "ufuncscale" \notin Fixes
V0Below(vc0, d0, k) == vc0 \in {"s3", "h", "z"} \/ (vc0 = "max" /\ IsInt(d0) /\ Size(d0) = 1 /\ k = -3)
ElemVok(op, d0, d1, pr, k) ==
  /\ (IsComplex(d1) => (op \in CmpOps \/ "complexop" \in Fixes))
  /\ (OverflowU2(d1, pr[2], k) =>
        CASE op \in {"add", "subtract", "maximum"} -> FALSE
          [] op \in {"equal", "not_equal"} -> TRUE
          [] OTHER -> V0Below(pr[1], d0, k))
UfuncVok(op, d0, d1, els, k) == \A j \in DOMAIN els : ElemVok(op, d0, d1, els[j], k)
UfuncOut(op, d0, d1, out) ==
  LET od == OutDType(out, d0)
      \* 1. integer output buffers are retyped to "f<itemsize>" before anything else
      outRaise == out # "none" /\ IsInt(od) /\ Size(od) = 1
      ob == IF out = "none" THEN [kind |-> "", size |-> 0]
            ELSE IF IsInt(od) THEN [kind |-> "f", size |-> Size(od)] ELSE [kind |-> Kind(od), size |-> Size(od)]
      d0eff == IF out = "inplace" /\ IsInt(d0) THEN "f" \o SizeStr(d0) ELSE d0
      \* 2. operand 1: asarray(inp1, "f<itemsize>") * conv - a real float of operand 1's item size
      cfix == IsComplex(d1) /\ "complexop" \in Fixes
      f1 == IF cfix THEN Size(d1) \div 2 ELSE Size(d1)
      res0 == Promote(d0eff, f1)
      res == IF cfix THEN [kind |-> "c", size |-> 2 * CompOf(res0.kind, res0.size)] ELSE res0
      \* 3. the ufunc itself: casting into a supplied buffer must be same_kind
      castRaise == out # "none" /\ res.kind = "c" /\ ob.kind = "f"
      \* the imaginary part of operand 1 is dropped by the cast; uint16 values above the float16 range
      \* overflow in the cast, before the scaling (see InPlaceOut) - both are recorded by UfuncVok
      vok == TRUE
  IN IF outRaise THEN Raise
     ELSE IF f1 \in {1, 32} THEN Raise   \* np.dtype("f1") / np.dtype("f32") do not exist
     ELSE IF op \in CmpOps THEN Ret("b", 1, FALSE, FALSE, vok)
     ELSE IF castRaise THEN Raise
     ELSE IF out = "none" THEN Ret(res.kind, res.size, FALSE, FALSE, vok)
     ELSE Ret(ob.kind, ob.size, FALSE, FALSE, vok)

\* ================================================================ C17: property predicates
\* A result record r has: raise, kind, size, py (a Python float, no dtype), warn (a RuntimeWarning was
\* issued), vok (every element holds the exact converted value rounded to the result type or to Want(d)).

\* "or raises when no such float type exists": a refusal is acceptable only where a float of the item
\* size of the integer data that must be retyped/converted in place does not exist (1-byte integers)
C17_RefuseConv(route, d, r) == r.raise => (IsInt(d) /\ Size(d) = 1 /\ route \in InPlaceRoutes)
\* C17a: never truncated to integers - floating (complex stays complex), not narrower, right values
C17a_Kind(d, r) == ~r.raise => (r.kind \in {"f", "c"} /\ (IsComplex(d) => r.kind = "c"))
C17a_Narrow(d, r) == (~r.raise /\ ~r.py /\ r.kind \in {"f", "c"}) => CompOf(r.kind, r.size) >= Comp(d)
C17a_Val(r) == ~r.raise => r.vok
\* C17b: conversion routes give the float of the same item size (>= 16 bits); f2/f4 keep their width
C17b(d, r) == (~r.raise /\ ~r.py) => (r.kind = Want(d).kind /\ r.size = Want(d).size)
\* C17c: the copying route and its in-place twin agree on dtype and values (when both return)
C17c(rc, ri, same) == (~rc.raise /\ ~ri.raise) => ((~rc.py => (rc.kind = ri.kind /\ rc.size = ri.size))
                                                  /\ ((rc.py /\ CompOf(ri.kind, ri.size) > 8) \/ same))
\* C17d: a RuntimeWarning when an integer too large for the target float is converted (the integer is
\* exactly representable neither in the float of its item size nor in the float actually returned)
TooLarge(vcs, d, r) == \E i \in DOMAIN vcs : ~RepIn(vcs[i], d, Want(d).size) /\ (r.py \/ ~RepIn(vcs[i], d, CompOf(r.kind, r.size)))
C17d(d, vcs, r) == (~r.raise /\ IsInt(d) /\ r.kind \in {"f", "c"} /\ TooLarge(vcs, d, r)) => r.warn

ConvFails(route, d, vcs, r) ==
  {cl \in {"C17_refuse", "C17a_kind", "C17a_narrow", "C17a_value", "C17b", "C17d"} :
     CASE cl = "C17_refuse" -> ~C17_RefuseConv(route, d, r)
       [] cl = "C17a_kind" -> ~C17a_Kind(d, r)
       [] cl = "C17a_narrow" -> ~C17a_Narrow(d, r)
       [] cl = "C17a_value" -> ~C17a_Val(r)
       [] cl = "C17b" -> ~C17b(d, r)
       [] cl = "C17d" -> ~C17d(d, vcs, r)}

\* Identity "conversions" (source unit = target unit, e.g. m -> in_base() -> m): the statement speaks of
\* converting "to another unit", so a route that hands integer data back unchanged is not questioned -
\* only refusals, the values and (C17c, in the callers) the agreement of the copying and in-place routes.
\* A conversion between two NAMES of the same scale (N -> kg*m/s**2, la -> lnd) is a conversion: full P.
ConvFailsI(route, d, vcs, r, ident) ==
  IF ident THEN ConvFails(route, d, vcs, r) \cap {"C17_refuse", "C17a_value"} ELSE ConvFails(route, d, vcs, r)

\* mixed-unit binary ufuncs
C17_RefuseUfunc(d0, d1, out, r) ==
  r.raise => \/ (IsInt(d1) /\ Size(d1) = 1)
             \/ Size(d1) = 32   \* no real float of 32 bytes exists either
             \/ (out # "none" /\ IsInt(OutDType(out, d0)) /\ Size(OutDType(out, d0)) = 1)
             \/ (out # "none" /\ ~IsComplex(OutDType(out, d0)) /\ (IsComplex(d0) \/ IsComplex(d1)))
C17a_UKind(op, d0, d1, out, r) ==
  ~r.raise => IF op \in CmpOps THEN r.kind = "b"
              ELSE /\ r.kind \in {"f", "c"}
                   /\ ((IsComplex(d0) \/ IsComplex(d1)) => r.kind = "c")
C17a_UNarrow(op, d0, d1, out, r) ==
  (~r.raise /\ op \in ArithOps /\ r.kind \in {"f", "c"}) =>
     \* ("float32 and float16 data stay in their width": with two floating operands nothing may widen)
     IF out = "none" THEN (IF IsInt(d0) \/ IsInt(d1) THEN CompOf(r.kind, r.size) >= Max2(Comp(d0), Comp(d1))
                           ELSE CompOf(r.kind, r.size) = Max2(Comp(d0), Comp(d1)))
     ELSE LET od == OutDType(out, d0) IN CompOf(r.kind, r.size) = Comp(od)
UfuncFails(op, d0, d1, out, r) ==
  {cl \in {"C17_refuse", "C17a_kind", "C17a_narrow", "C17a_value"} :
     CASE cl = "C17_refuse" -> ~C17_RefuseUfunc(d0, d1, out, r)
       [] cl = "C17a_kind" -> ~C17a_UKind(op, d0, d1, out, r)
       [] cl = "C17a_narrow" -> ~C17a_UNarrow(op, d0, d1, out, r)
       [] cl = "C17a_value" -> ~C17a_Val(r)}


\* ================================================================ combining integer data elsewhere ("comb")
\* Every other place where data in different commensurable units are combined: a list/tuple of quantities
\* in the constructor or as a ufunc operand (_coerce_iterable_units: each element .in_units(first unit),
\* np.array of the converted elements), __setitem__ (value.to(self.units), then NumPy's assignment into
\* the array's own dtype), np.isclose / np.allclose (_array_comp_helper: b.in_units(a.units)), and the
\* functions that refuse mixed units (UnitInconsistencyError).
\* A case: array a (dtype da, unit ua, values va), elements/value b (dtype de): element 1 = BaseClass(de)
\* in unit uf, element 2 = class vb in unit us.
CtorForms == {"ctor_list", "ctor_tuple", "ctor_arrays"}
ListOpForms == {"ufunc_rlist", "ufunc_llist"}
SetForms == {"setitem_q", "setitem_list", "setitem_arr"}
CloseForms == {"isclose", "allclose"}
RefusingForms == {"clip", "where", "concatenate", "stack", "append", "insert"}
CombForms == CtorForms \cup ListOpForms \cup SetForms \cup CloseForms \cup RefusingForms
SizeName(n) == CASE n = 1 -> "1" [] n = 2 -> "2" [] n = 4 -> "4" [] n = 8 -> "8" [] n = 16 -> "16" [] n = 32 -> "32"
WantName(d) == Want(d).kind \o SizeName(Want(d).size)
AsFloatComp(d) == IF IsInt(d) THEN IntAsFloat(d) ELSE Comp(d)
\* NumPy result type of two operands of which at least one is floating
ResultType(a, b) == LET cs == Max2(AsFloatComp(a), AsFloatComp(b)) IN
                    IF IsComplex(a) \/ IsComplex(b) THEN [kind |-> "c", size |-> 2 * cs] ELSE [kind |-> "f", size |-> cs]
\* is v * 2^k an integer, for the integer of class vc at dtype d?  (every class but "min" is odd)
Integral(vc, d, k) == k >= 0 \/ vc = "z0" \/ (vc = "min" /\ 8 * Size(d) - 1 >= -k)
\* units of the assigned / listed elements per form: <<unit of element 1, unit of element 2>>
ElemUnits(form, uf, us) == IF form \in {"setitem_arr", "isclose", "allclose"} \cup RefusingForms THEN <<us, us>> ELSE <<uf, us>>
\* the unit the data end up in
TargetUnit(form, uf, us, ua) == IF form \in CtorForms \/ form = "ufunc_llist" THEN uf ELSE ua
CombOut(form, op, da, de, vb, uf, us, ua) ==
  LET W == WantName(de)
      eu == ElemUnits(form, uf, us)
      tu == TargetUnit(form, uf, us, ua) IN
  CASE form \in CtorForms -> Ret(Want(de).kind, Want(de).size, FALSE, FALSE, TRUE)
    [] form = "ufunc_rlist" ->
         IF ua = uf THEN (IF op \in CmpOps THEN Ret("b", 1, FALSE, FALSE, TRUE)
                          ELSE Ret(ResultType(da, W).kind, ResultType(da, W).size, FALSE, FALSE, TRUE))
         ELSE LET r == UfuncOut(op, da, W, "none") IN
              IF r.raise THEN r ELSE [r EXCEPT !.vok = IsComplex(W) => (op \in CmpOps \/ "complexop" \in Fixes)]
    [] form = "ufunc_llist" ->
         IF ua = uf THEN (IF op \in CmpOps THEN Ret("b", 1, FALSE, FALSE, TRUE)
                          ELSE Ret(ResultType(da, W).kind, ResultType(da, W).size, FALSE, FALSE, TRUE))
         ELSE LET r == UfuncOut(op, W, da, "none") IN
              IF r.raise THEN r ELSE [r EXCEPT !.vok = IsComplex(da) => (op \in CmpOps \/ "complexop" \in Fixes)]
    \* the converted (floating) value is assigned into the array's own dtype: truncated when that is an integer type
    [] form \in SetForms ->
         Ret(Kind(da), Size(da), FALSE, FALSE,
             ~IsInt(da) \/ ((form = "setitem_q" \/ Integral(BaseClass(de), de, UnitExp(eu[1]) - UnitExp(tu)))
                            /\ Integral(vb, de, UnitExp(eu[2]) - UnitExp(tu))))
    [] form \in CloseForms -> Ret("b", 1, form = "allclose", FALSE, TRUE)
    [] form \in RefusingForms -> Raise

\* ---- C17 on these forms.  Constructor and list operands: same demands as for the binary ufuncs (floating,
\* complex stays complex, not narrower, right values; no refusal - a float of at least 16 bits always
\* exists for the elements).  __setitem__: the array keeps its dtype (NumPy's assignment semantics, not
\* demanded otherwise), but the stored numbers must not be integer-truncated conversions: they equal the
\* exact converted values (rounded to the array's type when it is floating); refusing is acceptable for an
\* integer array.  isclose/allclose: the boolean answer is the one for the exactly converted values.
\* Functions that refuse mixed units may keep refusing; if one returns, it returns floating data whose
\* elements are exactly converted inputs.
CombRefuseOK(form, op, da, de, uf, ua) ==
  \/ form \in RefusingForms
  \/ (form \in SetForms /\ IsInt(da))
  \/ (form = "ufunc_llist" /\ ua # uf /\ (Size(da) = 32 \/ (IsInt(da) /\ Size(da) = 1)))
CombFails(form, op, da, de, uf, ua, r) ==
  {cl \in {"C17_refuse", "C17a_kind", "C17a_narrow", "C17a_value"} :
     CASE cl = "C17_refuse" -> r.raise /\ ~CombRefuseOK(form, op, da, de, uf, ua)
       [] cl = "C17a_kind" ->
            ~r.raise /\ CASE form \in CtorForms -> ~C17a_Kind(de, r)
                          [] form \in ListOpForms -> ~C17a_UKind(op, da, de, "none", r)
                          [] form \in CloseForms -> r.kind # "b"
                          [] form \in RefusingForms -> ~(r.kind \in {"f", "c"})
                          [] OTHER -> FALSE
       [] cl = "C17a_narrow" ->
            ~r.raise /\ CASE form \in CtorForms -> ~C17a_Narrow(de, r)
                          [] form \in ListOpForms -> ~C17a_UNarrow(op, da, de, "none", r)
                          [] OTHER -> FALSE
       [] cl = "C17a_value" -> ~C17a_Val(r)}

\* ---------------------------------------------------------------- exact values for the small classes
RECURSIVE OddPart(_)
OddPart(n) == IF n # 0 /\ n % 2 = 0 THEN OddPart(n \div 2) ELSE n
IAbs(n) == IF n < 0 THEN -n ELSE n
\* is the (normalised, dyadic, 32-bit) rational x a normal number of the float with cs-byte components?
IsRepR(x, cs) ==
  \/ x[1] = 0
  \/ /\ cs \in {2, 4, 8, 16}
     /\ (cs <= 4 => OddPart(IAbs(x[1])) < Pow2Nat(Prec(cs)))
     /\ (cs = 2 => (IAbs(x[1]) <= 65504 * x[2] /\ (x[2] <= 16384 \/ x[2] \div 16384 <= IAbs(x[1]))))
ConvExact(vc, k) == LET v == SmallVal(vc) IN <<RMul(v[1], Pow2(k)), RMul(v[2], Pow2(k))>>
\* affine conversion (units with an offset): the shift moves the real part only
ConvExactS(vc, k, sh) == LET x == ConvExact(vc, k) IN <<RAdd(x[1], sh), x[2]>>
UfuncExact(op, vc0, vc1, k) ==
  LET a == SmallVal(vc0)
      b == ConvExact(vc1, k) IN
  CASE op = "add" -> <<RAdd(a[1], b[1]), RAdd(a[2], b[2])>>
    [] op = "subtract" -> <<RSub(a[1], b[1]), RSub(a[2], b[2])>>
    [] op = "maximum" -> <<RMax(a[1], b[1]), RZero>>
    [] op = "minimum" -> <<RMin(a[1], b[1]), RZero>>
UfuncCmp(op, vc0, vc1, k) ==
  LET a == SmallVal(vc0)
      b == ConvExact(vc1, k) IN
  CASE op = "less" -> RLt(a[1], b[1])
    [] op = "greater" -> RLt(b[1], a[1])
    [] op = "less_equal" -> RLe(a[1], b[1])
    [] op = "greater_equal" -> RLe(b[1], a[1])
    [] op = "equal" -> (REq(a[1], b[1]) /\ REq(a[2], b[2]))
    [] op = "not_equal" -> ~(REq(a[1], b[1]) /\ REq(a[2], b[2]))
\* ---- exact values on the comb forms (small classes): element j of the data that are combined
\* a-side classes: the BaseClass of da, or "tr" = floor of the partner's exactly converted value
CombB(de, vb, j) == IF j = 1 THEN BaseClass(de) ELSE vb
\* partner element j expressed in unit `to`
CombBIn(form, de, vb, uf, us, j, to) == ConvExact(CombB(de, vb, j), UnitExp(ElemUnits(form, uf, us)[j]) - UnitExp(to))
CombA(form, da, de, vb, uf, us, ua, va, j) ==
  IF va[j] = "tr" THEN <<RFloorR(CombBIn(form, de, vb, uf, us, j, ua)[1]), RZero>> ELSE SmallVal(va[j])
BinExact(op, a, b) ==
  CASE op = "add" -> <<RAdd(a[1], b[1]), RAdd(a[2], b[2])>>
    [] op = "subtract" -> <<RSub(a[1], b[1]), RSub(a[2], b[2])>>
    [] op = "maximum" -> <<RMax(a[1], b[1]), RZero>>
    [] op = "minimum" -> <<RMin(a[1], b[1]), RZero>>
BinCmp(op, a, b) ==
  CASE op = "less" -> RLt(a[1], b[1])
    [] op = "greater" -> RLt(b[1], a[1])
    [] op = "less_equal" -> RLe(a[1], b[1])
    [] op = "greater_equal" -> RLe(b[1], a[1])
    [] op = "equal" -> (REq(a[1], b[1]) /\ REq(a[2], b[2]))
    [] op = "not_equal" -> ~(REq(a[1], b[1]) /\ REq(a[2], b[2]))
Scale2(x, k) == <<RMul(x[1], Pow2(k)), RMul(x[2], Pow2(k))>>
=============================================================================
