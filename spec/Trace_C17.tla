------------------------------ MODULE Trace_C17 ------------------------------
(* Trace validation for C17.  Input (IOEnv.OBS): a JSON array of              *)
(*   [c |-> case exported by MC_C17 (with the model outcomes),                *)
(*    o |-> what the real library did on that case]                          *)
(* For every entry TLC builds the result record from the observation,        *)
(* evaluates the C17 predicates of DType on it (P) and compares it with the  *)
(* outcome of the transition (T).  Failing clauses are printed as P-FAIL,    *)
(* disagreements with the transition as T-FAIL.  Values: for the small value *)
(* classes TLC computes the exact converted value itself and, when it is a   *)
(* normal number of the result type, compares it with the observed rational; *)
(* otherwise it uses the harness' flags "observed = exact value rounded to   *)
(* the result type / to the demanded type" (exact Fraction arithmetic).      *)
(* Cases with real = TRUE (km, mile: non-dyadic factors) use the flags only; *)
(* there the harness sets them under the tolerance 4 ulp of the type +       *)
(* 2^-50 relative (float-vs-rational matching, the one thing Python decides).*)
EXTENDS DType, IOUtils
Obs == JsonDeserialize(IOEnv.OBS)
VARIABLE i
Init == i = 1

\* ---- one observed result -> result record
\* component size in which the observed numbers live (a Python float is a double)
ObsComp(o) == IF o.py THEN 8 ELSE CompOf(o.kind, o.size)
\* may TLC decide this element from its own exact value?
\* (the exact value must be a normal number of the result type and of every type it may legitimately
\* have been rounded in on the way: cs2, cs3)
Decidable(x, o, cs2, cs3) ==
                   /\ ~o.raise /\ o.kind \in {"f", "c"} /\ ObsComp(o) \in {2, 4, 8, 16}
                   /\ \A cs \in {ObsComp(o), cs2, cs3} : IsRepR(x[1], cs) /\ IsRepR(x[2], cs)
ElemMatches(e, x, o) == /\ e.has /\ e.re = x[1]
                        /\ IF o.kind = "c" THEN e.im = x[2] ELSE x[2] = RZero
\* with an offset the scaled product and the shift must be normal numbers of the types too: then no reading of
\* "rounded to that float type" (once at the end, or product and difference each) can differ from the exact value
ConvDecidable(vc, k, sh, o, d) ==
  /\ Decidable(ConvExactS(vc, k, sh), o, Comp(d), Comp(d))
  /\ (sh # RZero => (Decidable(ConvExact(vc, k), o, Comp(d), Comp(d)) /\ Decidable(<<sh, RZero>>, o, Comp(d), Comp(d))))
\* flags: mR / mW exact value rounded once to the result type / to Want(d); mP (offset units only) scaled product
\* rounded to the float type, shift subtracted in that type; mX (identity conversions only) observed = input exactly
ConvElemOK(e, vc, c, o) ==
  IF ~c.real /\ IsSmall(vc) /\ ConvDecidable(vc, c.k, c.sh, o, c.d) THEN ElemMatches(e, ConvExactS(vc, c.k, c.sh), o)
  ELSE (e.mR \/ e.mW \/ e.mP \/ (c.ident /\ e.mX))
ConvRec(o, c) ==
  IF o.raise THEN Raise
  ELSE Ret(o.kind, o.size, o.py, o.warnR, \A j \in DOMAIN c.vcs : ConvElemOK(o.els[j], c.vcs[j], c, o))
\* the harness' flags and TLC's own arithmetic must agree wherever both apply (else the oracle is broken)
ConvOracleOK(o, c) ==
  o.raise \/ \A j \in DOMAIN c.vcs :
     (IsSmall(c.vcs[j]) /\ ConvDecidable(c.vcs[j], c.k, c.sh, o, c.d)) =>
        (ElemMatches(o.els[j], ConvExactS(c.vcs[j], c.k, c.sh), o) <=> o.els[j].mR)

\* the type NumPy evaluates in when operand 1 is converted as the statement demands
MidComp(d0, d1, out) == LET d0e == IF out = "inplace" /\ IsInt(d0) THEN "f" \o SizeStr(d0) ELSE d0 IN
                        Max2(IF IsInt(d0e) THEN IntAsFloat(d0e) ELSE Comp(d0e), Comp(d1))
UDecidable(op, pr, k, o, c) == /\ IsSmall(pr[1]) /\ IsSmall(pr[2])
                               /\ Decidable(ConvExact(pr[2], k), o, Comp(c.d1), Comp(c.d1))
                               /\ Decidable(UfuncExact(op, pr[1], pr[2], k), o, MidComp(c.d0, c.d1, c.out), Comp(c.d1))
CmpDecidable(pr, k, c) == /\ IsSmall(pr[1]) /\ IsSmall(pr[2])
                          /\ IsRepR(ConvExact(pr[2], k)[1], Comp(c.d1)) /\ IsRepR(ConvExact(pr[2], k)[2], Comp(c.d1))
UElemOK(e, op, pr, k, o, c) ==
  IF op \in CmpOps THEN
     IF CmpDecidable(pr, k, c) THEN e.b = UfuncCmp(op, pr[1], pr[2], k) ELSE (e.mS \/ e.mP)
  ELSE IF UDecidable(op, pr, k, o, c)
       THEN ElemMatches(e, UfuncExact(op, pr[1], pr[2], k), o) ELSE (e.mS \/ e.mP)
URec(o, op, els, k, c) ==
  IF o.raise THEN Raise
  ELSE Ret(o.kind, o.size, FALSE, o.warnR, \A j \in DOMAIN els : UElemOK(o.els[j], op, els[j], k, o, c))
UOracleOK(o, op, els, k, c) ==
  o.raise \/ \A j \in DOMAIN els :
     IF op \in CmpOps THEN CmpDecidable(els[j], k, c) => ((o.els[j].b = UfuncCmp(op, els[j][1], els[j][2], k)) <=> o.els[j].mS)
     ELSE UDecidable(op, els[j], k, o, c) =>
            (ElemMatches(o.els[j], UfuncExact(op, els[j][1], els[j][2], k), o) <=> o.els[j].mS)

\* ---- T: the observation against the outcome of the transition
Shown(r) == [raise |-> r.raise, kind |-> r.kind, size |-> r.size, py |-> r.py, warn |-> r.warn, vok |-> r.vok]
TConv(m, o, r) == /\ m.raise = o.raise
                  /\ ~o.raise => (m.kind = o.kind /\ m.size = o.size /\ m.py = o.py /\ m.warn = o.warnU /\ m.vok = r.vok)
TUfunc(m, o, r) == /\ m.raise = o.raise
                   /\ ~o.raise => (m.kind = o.kind /\ m.size = o.size /\ m.vok = r.vok)

PFail(n, c, route, cl) ==
  PrintT(ToJson([tag |-> "P-FAIL", i |-> n, fam |-> c.fam, route |-> route, cl |-> cl,
                 d |-> IF c.fam = "conv" THEN c.d ELSE c.d0, d1 |-> IF c.fam = "conv" THEN "" ELSE c.d1,
                 vc |-> IF c.fam = "conv" THEN c.vc ELSE c.vc1, shape |-> c.shape, k |-> c.k,
                 out |-> IF c.fam = "conv" THEN "" ELSE c.out]))
TFail(n, route, m, o, r) ==
  PrintT(ToJson([tag |-> "T-FAIL", i |-> n, route |-> route, model |-> Shown(m),
                 observed |-> IF o.raise THEN Shown(Raise) ELSE Shown([r EXCEPT !.warn = o.warnU])]))

ReportConv(n, c, o) ==
  LET rc == ConvRec(o.c, c)
      ri == ConvRec(o.i, c)
      same == \A j \in DOMAIN o.same : o.same[j] IN
  /\ \A cl \in ConvFailsI(c.route, c.d, c.vcs, rc, c.ident) : PFail(n, c, c.route, cl)
  /\ \A cl \in ConvFailsI(c.twin, c.d, c.vcs, ri, c.ident) : PFail(n, c, c.twin, cl)
  /\ (~C17c(rc, ri, same) => PFail(n, c, c.route, "C17c"))
  /\ (~TConv(c.mc, o.c, rc) => TFail(n, c.route, c.mc, o.c, rc))
  /\ (~TConv(c.mi, o.i, ri) => TFail(n, c.twin, c.mi, o.i, ri))
  /\ (~(c.real \/ (ConvOracleOK(o.c, c) /\ ConvOracleOK(o.i, c))) => PrintT(ToJson([tag |-> "ORACLE", i |-> n])))
ReportUfunc(n, c, o) ==
  LET r == URec(o, c.op, c.els, c.k, c) IN
  /\ \A cl \in UfuncFails(c.op, c.d0, c.d1, c.out, r) : PFail(n, c, c.op, cl)
  /\ (~TUfunc(c.m, o, r) => TFail(n, c.op, c.m, o, r))
  /\ (~UOracleOK(o, c.op, c.els, c.k, c) => PrintT(ToJson([tag |-> "ORACLE", i |-> n])))
\* ufuncs on units of the default registry: the value verdict comes from the harness' flags alone (observed
\* within the stated tolerance of the exact rational result); T predicts the values only when c.tv
URealRec(o) == IF o.raise THEN Raise ELSE Ret(o.kind, o.size, FALSE, o.warnR, \A j \in DOMAIN o.els : (o.els[j].mS \/ o.els[j].mP))
ReportUReal(n, c, o) ==
  LET r == URealRec(o)
      m == IF c.tv \/ c.m.raise THEN c.m ELSE [c.m EXCEPT !.vok = r.vok] IN
  /\ \A cl \in UfuncFails(c.op, c.d0, c.d1, c.out, r) : PFail(n, c, c.op, cl)
  /\ (~TUfunc(m, o, r) => TFail(n, c.op, m, o, r))

\* ---- comb family: exact expectation for element j (small classes), else the harness' flags
CombSmall(c) == IsSmall(c.vc1) /\ (c.va[1] = "tr" \/ IsSmall(c.va[1]))
CombAj(c, j) == CombA(c.form, c.d0, c.d1, c.vc1, c.uf, c.us, c.ua, c.va, j)
CombBj(c, j, to) == CombBIn(c.form, c.d1, c.vc1, c.uf, c.us, j, to)
\* the numbers that appear on the way to element j (all must be normal numbers of the types involved)
CombSteps(c, j) ==
  CASE c.form \in CtorForms -> {CombBj(c, j, c.uf)}
    [] c.form = "ufunc_rlist" -> {CombBj(c, j, c.uf), CombBj(c, j, c.ua), CombAj(c, j)}
    [] c.form = "ufunc_llist" -> {CombBj(c, j, c.uf), CombAj(c, j), Scale2(CombAj(c, j), UnitExp(c.ua) - UnitExp(c.uf))}
    [] OTHER -> {CombBj(c, j, c.uf), CombBj(c, j, c.ua), CombAj(c, j)}
CombExact(c, j) ==
  CASE c.form \in CtorForms -> CombBj(c, j, c.uf)
    [] c.form = "ufunc_rlist" -> BinExact(c.op, CombAj(c, j), CombBj(c, j, c.ua))
    [] c.form = "ufunc_llist" -> BinExact(c.op, CombBj(c, j, c.uf), Scale2(CombAj(c, j), UnitExp(c.ua) - UnitExp(c.uf)))
    [] c.form = "setitem_q" /\ j = 1 -> CombAj(c, j)
    [] OTHER -> CombBj(c, j, c.ua)
CombCmp(c, j) ==
  CASE c.form = "ufunc_rlist" -> BinCmp(c.op, CombAj(c, j), CombBj(c, j, c.ua))
    [] c.form = "ufunc_llist" -> BinCmp(c.op, CombBj(c, j, c.uf), Scale2(CombAj(c, j), UnitExp(c.ua) - UnitExp(c.uf)))
    \* isclose with the default tolerances: on the dyadic grid (steps >= 2^-13) and |b| <= 8 it is equality
    [] OTHER -> REq(CombAj(c, j)[1], CombBj(c, j, c.ua)[1])
CombIsBool(c) == c.form \in CloseForms \/ (c.form \in ListOpForms /\ c.op \in CmpOps)
CombDecidable(c, j, o) ==
  /\ CombSmall(c) /\ ~o.raise /\ c.form \notin RefusingForms
  /\ \A x \in CombSteps(c, j) : \A cs \in {Comp(c.d0), Comp(c.d1)} : IsRepR(x[1], cs) /\ IsRepR(x[2], cs)
  /\ IF CombIsBool(c) THEN (c.form \in CloseForms => RLe(RAbs(CombBj(c, j, c.ua)[1]), R(8)))
     ELSE IF o.kind \in {"i", "u"} THEN TRUE
     ELSE Decidable(CombExact(c, j), o, Comp(c.d0), Comp(c.d1))
CombElemOK(e, c, j, o) ==
  IF CombDecidable(c, j, o) THEN
     IF CombIsBool(c) THEN e.b = CombCmp(c, j)
     ELSE IF o.kind \in {"i", "u"} THEN (e.has /\ e.re = CombExact(c, j)[1] /\ CombExact(c, j)[2] = RZero)
     ELSE ElemMatches(e, CombExact(c, j), o)
  ELSE (e.mS \/ e.mP)
\* allclose answers once for both elements
CombRec(o, c) ==
  IF o.raise THEN Raise
  ELSE Ret(o.kind, o.size, o.py, o.warnR,
           IF c.form = "allclose" THEN
              (IF CombDecidable(c, 1, o) /\ CombDecidable(c, 2, o) THEN o.els[1].b = (CombCmp(c, 1) /\ CombCmp(c, 2)) ELSE (o.els[1].mS \/ o.els[1].mP))
           ELSE \A j \in DOMAIN o.els : CombElemOK(o.els[j], c, IF j > 2 THEN 2 ELSE j, o))
CombOracleOK(o, c) ==
  o.raise \/ c.form = "allclose" \/ \A j \in DOMAIN o.els : j <= 2 =>
     (CombDecidable(c, j, o) => (CombElemOK(o.els[j], c, j, o) <=> o.els[j].mS))
TComb(m, o, r) == /\ m.raise = o.raise
                  /\ ~o.raise => (m.kind = o.kind /\ m.size = o.size /\ m.py = o.py /\ m.vok = r.vok)
ReportComb(n, c, o) ==
  LET r == CombRec(o, c) IN
  /\ \A cl \in CombFails(c.form, c.op, c.d0, c.d1, c.uf, c.ua, r) : PFail(n, c, c.form, cl)
  /\ (~TComb(c.m, o, r) => TFail(n, c.form, c.m, o, r))
  /\ (~CombOracleOK(o, c) => PrintT(ToJson([tag |-> "ORACLE", i |-> n])))

Next == /\ i <= Len(Obs)
        /\ LET c == Obs[i].c
               o == Obs[i].o IN
           IF c.fam = "conv" THEN ReportConv(i, c, o) ELSE IF c.fam = "comb" THEN ReportComb(i, c, o)
           ELSE IF c.fam = "ureal" THEN ReportUReal(i, c, o) ELSE ReportUfunc(i, c, o)
        /\ i' = i + 1
=============================================================================
