CONSTANT MaxLen = 2
INIT RegInit
NEXT Next
INVARIANT HistoryFree
INVARIANT Export
CHECK_DEADLOCK FALSE
