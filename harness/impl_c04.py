"""Replay of Arith.tla programs in real unyt (C04).

observe(case) -> {"events": [...], "errors": [...]}

A case is one TLC-generated program: `steps` (op, method, set of call forms,
operand registers, parameter) plus, for the two runs A and B (leaves of B are
the leaves of A re-expressed in another commensurable unit), the registers of
the specification: unit (exponents x6 over the atom table), the transcription's
numbers `v` and the reference numbers `rv` in that unit.

Each run is executed once per call-form variant (operator / ufunc / in-place /
out= / ...).  Every executed step becomes one event carrying the operands as
observed before the call and the observed result.  Python only projects:
floats are matched to the rationals the specification expected (exactly, or
within a stated tolerance) - otherwise they travel as the exact fraction of the
float, or as the sentinel [0, 0].  All verdicts are TLC's (Trace_C04.tla)."""

import math
import operator
from fractions import Fraction

import numpy as np

INT_LIMIT = 2**31 - 1
RTOL = 1e-12
STEP = math.pi / 12.0  # a number in radian is carried by the model as a multiple of pi/12

_U = {}


def setup(common=None):
    import unyt
    from unyt import dimensions
    from unyt.unit_object import Unit
    from unyt.unit_registry import UnitRegistry

    tab = common["table"]
    names, grp, pv = tab["names"], tab["grp"], tab["pv"]
    primes = [2, 3, 5, 127]
    dims = {1: dimensions.length, 2: dimensions.time, 3: dimensions.angle, 4: dimensions.energy, 0: dimensions.dimensionless}
    # registry 1: default symbols + custom atoms as in AtomPV; registry 2: the same symbols, some custom atoms re-valued
    # (Arith!Reg2Atoms); registry 3: a plain UnitRegistry()
    reg2pow = {int(a) - 1: int(k) for a, k in tab.get("reg2", [])}
    regs = {1: UnitRegistry(), 2: UnitRegistry(), 3: UnitRegistry()}
    pvs = {1: [list(v) for v in pv], 2: [list(v) for v in pv], 3: [list(v) for v in pv]}
    for i, k in reg2pow.items():
        pvs[2][i] = [k, 0, 0, 0]
    for i, (n, g) in enumerate(zip(names, grp)):
        if n.startswith("x"):
            # custom atoms: power-of-two scales (exact float arithmetic); `xst` = 15 degrees = pi/12 rad
            for r in (1, 2):
                if n in regs[r].lut:
                    raise RuntimeError("custom atom collides with a unyt symbol: " + n)
                sc = 1.0
                for p, e in zip(primes, pvs[r][i]):
                    sc *= float(p) ** e
                regs[r].add(n, sc * (math.pi / 180.0) if g == 3 else sc, dims[g] if g != 5 else dimensions.length / dimensions.time)
    atoms = [Unit(n, registry=regs[1]) for n in names]
    keys = [str(a.expr) for a in atoms]
    _U.update(unyt=unyt, reg=regs[1], regs=regs, pvs=pvs, names=names, pv=pv, grp=grp, idx={k: i for i, k in enumerate(keys)}, ua=unyt.unyt_array, uq=unyt.unyt_quantity, dims=dims, rad=names.index("radian"))
    _U["rscale"] = [float(a.base_value) for a in atoms]
    _U["rdim"] = [a.dimensions for a in atoms]


# ------------------------------------------------------------------ projection
def _unit_str(u):
    parts = []
    for n, e in zip(_U["names"], u):
        if e:
            parts.append(f"{n}**{e // 6}" if e % 6 == 0 else f"{n}**({e // 3}/2)" if e % 3 == 0 else f"{n}**({e // 2}/3)")
    return "*".join(parts) if parts else "dimensionless"


def _sv_of(u, rg=1):
    """scale (prime exponents x6) of a symbol-exponent vector under the symbol table of registry rg"""
    ex = [0, 0, 0, 0]
    for e, v in zip(u, _U["pvs"][rg if rg in (1, 2, 3) else 1]):
        if e:
            for k in range(4):
                ex[k] += e * v[k]
    return ex


def _sv_ratio(sa, sb):
    """scale ratio from two prime-exponent vectors (x6): exact Fraction when integral, else float"""
    primes = [2, 3, 5, 127]
    ex = [a - b for a, b in zip(sa, sb)]
    if all(e % 6 == 0 for e in ex):
        r = Fraction(1)
        for p, e in zip(primes, ex):
            r *= Fraction(p) ** (e // 6)
        return r
    r = 1.0
    for p, e in zip(primes, ex):
        r *= float(p) ** (e / 6.0)
    return r


def _sv_float(sv):
    r = 1.0
    for p, e in zip((2, 3, 5, 127), sv):
        r *= float(p) ** (e / 6.0)
    return r


def _unit_vec(units, model_sv=None):
    """symbol exponents x6 of a real Unit over the atom table, the SI scale it CARRIES (units.base_value) as prime
    exponents x6, and whether both could be read (dimensions consistent, no zero point, scale recognised)"""
    import sympy

    vec = [0] * len(_U["names"])
    ok = True
    for b, e in units.expr.as_powers_dict().items():
        if getattr(b, "is_Number", False):
            if b != 1:
                ok = False
            continue
        if str(b) == "dimensionless":
            continue
        i = _U["idx"].get(str(b))
        e6 = sympy.Rational(e) * 6
        if i is None or e6.q != 1:
            ok = False
            continue
        vec[i] = int(e6)
    if not ok:
        return vec, [0, 0, 0, 0], False
    real1 = 1.0
    dim = 1
    for sc, d, e in zip(_U["rscale"], _U["rdim"], vec):
        if e:
            real1 *= sc ** (e / 6.0)
            dim = dim * d ** sympy.Rational(e, 6)
    if units.dimensions != dim or units.base_offset:
        return vec, [0, 0, 0, 0], False
    # the carried scale: the one the specification expects, or the expression valued by one of the symbol tables;
    # angle atoms carry factors of pi in reality and not in the model - they depend on the symbols only
    sv1 = _sv_of(vec, 1)
    angle = real1 / _sv_float(sv1)
    bv = float(units.base_value)
    cands = ([list(model_sv)] if model_sv is not None else []) + [sv1, _sv_of(vec, 2)]
    for c in cands:
        if math.isclose(bv, _sv_float(c) * angle, rel_tol=1e-11):
            return vec, c, True
    # a power of two times the registry-1 valuation (mixed registries)
    q = bv / (real1 if real1 else 1.0)
    if q > 0:
        k = round(math.log2(q) * 6)
        c = [sv1[0] + k] + sv1[1:]
        if abs(k) < 6000 and math.isclose(bv, _sv_float(c) * angle, rel_tol=1e-11):
            return vec, c, True
    return vec, [0, 0, 0, 0], False


def _safe(f):
    return abs(f.numerator) <= INT_LIMIT and f.denominator <= INT_LIMIT


def _snap(x, cands, erad, atol):
    """float -> ([n, d], exact).  cands: Fractions the specification expects in the observed unit."""
    if math.isnan(x) or math.isinf(x):
        return [0, 0], False
    proj = STEP ** (erad / 6.0) if erad else 1.0
    if not erad:
        f = Fraction(x)
        for c in cands:
            if isinstance(c, Fraction) and c == f and _safe(c):
                return [c.numerator, c.denominator], True
    for c in cands:
        rc = float(c) * proj
        if abs(x - rc) <= RTOL * abs(rc) + atol:
            c = c if isinstance(c, Fraction) else None
            if c is not None and _safe(c):
                return [c.numerator, c.denominator], False
    if not erad:
        if _safe(f):
            return [f.numerator, f.denominator], True
    return [0, 0], False


def _reg_id(units):
    for k, r in _U["regs"].items():
        if units.registry is r:
            return k
    return 0


def _project(x, model, magnitude):
    """observed register: kind, unit symbols, carried scale, registry, numbers as rationals (complex: real parts then
    imaginary parts), exactness"""
    ua = _U["ua"]
    nz = [0] * len(_U["names"])
    if isinstance(x, ua):
        vec, sv, coherent = _unit_vec(x.units, model["sv"] if model and model.get("k") == "q" else None)
        k = "q"
        rg = _reg_id(x.units)
        arr = np.asarray(x.d)
    else:
        vec, sv, coherent, k, rg = nz, [0, 0, 0, 0], True, "b", 0
        arr = np.asarray(x)
    cx = bool(np.iscomplexobj(arr))
    if cx:
        flat = arr.ravel()
        vals = [float(z.real) for z in flat] + [float(z.imag) for z in flat]
    else:
        vals = np.asarray(arr, dtype=float).ravel().tolist()
    erad = vec[_U["rad"]]
    out = []
    exact = True
    factor = None
    if model is not None and model["k"] == k and bool(model.get("cx", False)) == cx and coherent:
        factor = _sv_ratio(model["sv"], sv)
    for j, xv in enumerate(vals):
        cands = []
        if factor is not None and j < len(model["v"]):
            for src in (model["v"], model["rv"], model.get("pv", model["rv"])):
                c = Fraction(src[j][0], src[j][1])
                c = c * factor if isinstance(factor, Fraction) else float(c) * factor
                if c not in cands:
                    cands.append(c)
        mag = max([magnitude] + [abs(float(c)) * (STEP ** (erad / 6.0) if erad else 1.0) for c in cands])
        r, ex = _snap(xv, cands, erad, 1e-12 * mag)
        out.append(r)
        exact = exact and ex
    return {"k": k, "u": vec, "sv": sv, "rg": rg, "cx": cx, "dt": _dt(arr), "v": out, "ex": bool(exact)}, coherent


# ------------------------------------------------------------------ exponent space (powerx)
_PR = (2, 3, 5, 127)


def _qf(vec):
    """float value of prod primes ** vec (vec: Fractions)"""
    return math.exp(sum(float(e) * math.log(p) for p, e in zip(_PR, vec)))


def _qout(vec):
    out = []
    for f in vec:
        if f is None or not _safe(f):
            out.append([0, 0])
        else:
            out.append([f.numerator, f.denominator])
    return out


def _qin(v):
    return [Fraction(n, d) for n, d in v]


def _project_x(x, model):
    """observed result of a power with a general exponent, in exponent space: exponent of every atom in the unit (ue),
    units.dimensions over <<length, time, angle, energy>> (dq), prime exponents of units.base_value (sv), of every number
    (lv) and of every SI magnitude d * base_value (si).  Floats are matched to the vectors the specification expects
    (rtol 1e-12; base_value 1e-11), else the sentinel [0, 0] travels."""
    import sympy

    from unyt import dimensions as D

    ua = _U["ua"]
    na = len(_U["names"])
    bare = not isinstance(x, ua)
    ue = [Fraction(0)] * na
    dq = [Fraction(0)] * 4
    coherent = True
    bv = 1.0
    factor = 1.0
    sv = [Fraction(0)] * 4
    rg = 0
    if not bare:
        units = x.units
        rg = _reg_id(units)
        want_ue = _qin(model["u"]) if model and model.get("k") == "l" else None
        for b, e in units.expr.as_powers_dict().items():
            if getattr(b, "is_Number", False):
                if b != 1:
                    coherent = False
                continue
            if str(b) == "dimensionless":
                continue
            i = _U["idx"].get(str(b))
            if i is None:
                coherent = False
                continue
            if getattr(e, "is_Rational", False):
                ue[i] = Fraction(int(e.p), int(e.q))
            else:
                # a float exponent: the rational the specification expects when it is that number, else unreadable
                fe = float(e)
                if want_ue is not None and math.isclose(fe, float(want_ue[i]), rel_tol=1e-14, abs_tol=0.0):
                    ue[i] = want_ue[i]
                else:
                    ue[i] = None
                    coherent = False
        # units.dimensions over the model's dimension groups (energy is a group of its own: mass appears only through it)
        dims = units.dimensions
        pd = dims.as_powers_dict() if dims != 1 else {}
        ex = {}
        for b, e in pd.items():
            if getattr(b, "is_Number", False):
                continue
            ex[b] = sympy.Rational(e) if getattr(e, "is_Rational", False) else None
        known = {D.mass, D.length, D.time, D.angle}
        if any(b not in known for b in ex) or any(v is None for v in ex.values()):
            coherent = False
            dq = [None] * 4
        else:
            g = {b: Fraction(int(v.p), int(v.q)) for b, v in ex.items()}
            m = g.get(D.mass, Fraction(0))
            dq = [g.get(D.length, Fraction(0)) - 2 * m, g.get(D.time, Fraction(0)) + 2 * m, g.get(D.angle, Fraction(0)), m]
        # the expression, the carried dimensions and the carried scale must describe one unit
        if coherent:
            dim = 1
            real1 = 1.0
            for sc, d, e in zip(_U["rscale"], _U["rdim"], ue):
                if e:
                    real1 *= sc ** float(e)
                    dim = dim * d ** sympy.Rational(e.numerator, e.denominator)
            if units.dimensions != dim or units.base_offset:
                coherent = False
            bv = float(units.base_value)
            sv = None
            if coherent:
                svs = []
                for r in (1, 2):
                    c = [Fraction(0)] * 4
                    for e, pvv in zip(ue, _U["pvs"][r]):
                        if e:
                            for k in range(4):
                                c[k] += e * pvv[k]
                    svs.append(c)
                factor = real1 / _qf(svs[0])  # pi / eV factors the model does not carry (they depend on the symbols only)
                cands = ([_qin(model["sv"])] if model and model.get("k") == "l" else []) + svs
                for c in cands:
                    if math.isclose(bv, _qf(c) * factor, rel_tol=1e-11):
                        sv = c
                        break
                if sv is None:
                    coherent = False
        if sv is None:
            sv = [None] * 4
    arr = np.asarray(x.d if not bare else x, dtype=float).ravel().tolist()
    lv, si = [], []
    for j, xv in enumerate(arr):
        l = s = None
        if model and model.get("k") == "l" and j < len(model["v"]) and xv > 0 and math.isfinite(xv):
            c = _qin(model["v"][j])
            if math.isclose(xv, _qf(c), rel_tol=RTOL):
                l = c
            c = _qin(model["rv"][j])
            t = xv * bv
            if math.isfinite(t) and math.isclose(t, _qf(c) * factor, rel_tol=RTOL):
                s = c
        lv.append(_qout(l if l is not None else [None] * 4))
        si.append(_qout(s if s is not None else [None] * 4))
    return {"k": "l", "bare": bool(bare), "ue": _qout(ue), "dq": _qout(dq), "sv": _qout(sv), "rg": rg, "lv": lv, "si": si}, bool(coherent)


ZERO = None


def _bare(p):
    return {"k": "n", "u": [0] * len(_U["names"]), "sv": [0, 0, 0, 0], "rg": 0, "cx": False, "dt": "f", "v": [list(p)], "ex": True}


def _dummy():
    return {"k": "x", "u": [0] * len(_U["names"]), "sv": [0, 0, 0, 0], "rg": 0, "cx": False, "dt": "f", "v": [[1, 1]], "ex": True}


# ------------------------------------------------------------------ execution
_PYOP = {
    "add": operator.add, "subtract": operator.sub, "multiply": operator.mul, "divide": operator.truediv,
    "floor_divide": operator.floordiv, "remainder": operator.mod, "less": operator.lt, "less_equal": operator.le,
    "greater": operator.gt, "greater_equal": operator.ge, "equal": operator.eq, "not_equal": operator.ne,
    "negative": operator.neg, "positive": operator.pos, "absolute": abs, "power": operator.pow,
}
_IOP = {
    "add": operator.iadd, "subtract": operator.isub, "multiply": operator.imul, "divide": operator.itruediv,
    "floor_divide": operator.ifloordiv, "remainder": operator.imod, "power": operator.ipow,
}
_FN = {"add": "sum", "multiply": "prod", "maximum": "max", "minimum": "min"}


def _out_like(shape, cx=False):
    return _U["ua"](np.zeros(shape, dtype=complex if cx else float), "xta", registry=_U["reg"])


def _exec(st, form, a, b):
    """returns list of (label, result object)"""
    op, meth, p = st["op"], st["meth"], st["p"]
    pf = p[0] / p[1]
    if op == "dot":
        if form == "meth":
            return [("", a.dot(b))]
        if form == "fn":
            return [("", np.dot(a, b))]
        if form == "op":
            return [("", a @ b)]
        return [("", getattr(np, form)(a, b))]
    if op in ("divmod_q", "divmod_r"):
        r = np.divmod(a, b) if form == "uf" else divmod(a, b)
        return [("", r[0] if op == "divmod_q" else r[1])]
    if op == "powerx":
        uq = _U["uq"]
        if form == "op":
            return [("", a**pf)]
        if form == "uf":
            return [("", np.power(a, pf))]
        if form == "op64":
            return [("", a ** np.float64(pf))]
        if form == "uf0d":
            return [("", np.power(a, np.array(pf)))]
        if form == "ufarr":
            return [("", np.power(a, np.full(np.shape(a), pf)))]
        if form == "ufq":
            return [("", np.power(a, uq(pf, "dimensionless")))]
        if form == "opq":
            return [("", a ** uq(pf, "dimensionless"))]
        if form == "iop":
            t = a.copy()
            t **= pf
            return [("", t)]
        if form == "outself":
            t = a.copy()
            r = np.power(t, pf, out=t)
            return [("", t), (".ret", r)]
        if form == "out":
            o = _out_like(np.shape(a))
            r = np.power(a, pf, out=o)
            return [("", o), (".ret", r)]
        raise ValueError("unknown form " + form)
    uf = getattr(np, op)
    if meth == "reduce":
        if form == "fn":
            return [("", getattr(a, _FN[op])())]
        return [("", uf.reduce(a))]
    if meth == "accumulate":
        if form == "fn":
            return [("", a.cumsum())]
        return [("", uf.accumulate(a))]
    if meth == "outer":
        return [("", uf.outer(a, b))]
    if op == "power":
        b = pf
    unary = b is None
    if form == "uf":
        return [("", uf(a) if unary else uf(a, b))]
    if form == "op":
        return [("", _PYOP[op](a) if unary else _PYOP[op](a, b))]
    if form == "iop":
        t = a.copy()
        t = _IOP[op](t, b)
        return [("", t)]
    if form == "outself":
        t = a.copy()
        r = uf(t, b, out=t) if not unary else uf(t, out=t)
        return [("", t), (".ret", r)]
    if form == "out":
        shape = np.broadcast(np.asarray(a), np.asarray(b)).shape if not unary else np.shape(a)
        o = _out_like(shape, np.iscomplexobj(a) or (not unary and np.iscomplexobj(b)))
        r = uf(a, out=o) if unary else uf(a, b, out=o)
        return [("", o), (".ret", r)]
    raise ValueError("unknown form " + form)


def _tb():
    import traceback

    lines = [ln.strip() for ln in traceback.format_exc().splitlines() if ln.strip().startswith("File")]
    return lines[:4] + lines[-6:]


_NPDT = {"f8": np.float64, "f4": np.float32, "c16": np.complex128, "c8": np.complex64, "i8": np.int64, "i4": np.int32, "i2": np.int16, "i1": np.int8, "u1": np.uint8, "u2": np.uint16}
_DTCODE = {np.dtype(v).str.lstrip("<>|="): k for k, v in _NPDT.items()}


def _dt(arr):
    """dtype of observed data as the specification reads it: the code of an integer type ("i1" "u1" "i2" "u2" "i4" "i8"),
    "f" for everything that is not integer arithmetic (Arith!IntKind only asks for that)"""
    d = np.asarray(arr).dtype
    return _DTCODE.get(d.str.lstrip("<>|="), "f") if d.kind in "iu" else "f"


def _leaf(model, shape="v"):
    vals = [Fraction(n, d) for n, d in model["v"]]
    erad = model["u"][_U["rad"]]
    fl = [float(v) * (STEP ** (erad // 6) if erad else 1.0) for v in vals]
    us = _unit_str(model["u"])
    reg = _U["regs"].get(model.get("rg", 1), _U["reg"])
    dt = model.get("dt", "f8")
    if model.get("cx"):
        n = len(fl) // 2
        data = np.array([complex(fl[i], fl[n + i]) for i in range(n)], dtype=_NPDT[dt if dt in ("c16", "c8") else "c16"])
    else:
        data = np.array(fl, dtype=float)
        if dt in ("i8", "i4", "i2", "i1", "u1", "u2"):
            # an integer leaf where the numbers are integers of that type (a re-expressed leaf need not be): else float64
            info = np.iinfo(_NPDT[dt])
            if all(v.denominator == 1 and info.min <= v.numerator <= info.max for v in vals) and not erad:
                data = data.astype(_NPDT[dt])
        elif dt == "f4":
            if all(float(np.float32(x)) == x for x in fl):
                data = data.astype(np.float32)
    if data.shape == (1,) and shape != "o":
        # one number: a 0-d quantity, or (shape "o") a 1-d array holding one element
        return _U["uq"](data[0], us, registry=reg)
    return _U["ua"](data, us, registry=reg)


def _run(case, run, variant):
    model = case[run]
    steps = case["steps"]
    real = []
    obs = []
    events = []
    errors = []
    shapes = (case.get("cfg", {}).get("xs", "v"), case.get("cfg", {}).get("ys", "v"))
    for i in range(2):
        x = _leaf(model[i], shapes[i])
        o, _ = _project(x, model[i], 0.0)
        real.append(x)
        obs.append(o)
    for si, st in enumerate(steps):
        forms = sorted(st["forms"])
        form = forms[variant % len(forms)]
        ia, ib = st["a"], st["b"]
        pf = st["p"][0] / st["p"][1]
        unary = st["op"] in ("negative", "positive", "absolute", "fabs", "sqrt", "cbrt", "square", "reciprocal", "sin", "cos", "tan", "sign", "power", "powerx") or st["meth"] in ("reduce", "accumulate")
        a = real[ia - 1] if ia else pf
        b = None if unary else (real[ib - 1] if ib else pf)
        oa = obs[ia - 1] if ia else _bare(st["p"])
        ob = _dummy() if unary else (obs[ib - 1] if ib else _bare(st["p"]))
        if a is None or (not unary and b is None) or oa is None or ob is None:
            real.append(None)
            obs.append(None)
            continue
        if form in ("iop", "outself") and not unary and np.broadcast(np.asarray(a), np.asarray(b)).shape != np.shape(a):
            form = "op"  # the broadcast result does not fit the target (NumPy refuses)
        if form in ("iop", "outself") and not ia:
            form = "op"
        if form in ("iop", "outself") and ia and np.asarray(a).dtype.kind in "iu" and np.asarray(a).dtype.itemsize < 4:
            # an in-place target of a narrow integer type is retyped by the library to the float type of the same width
            # (float16 precision for 2 bytes, a TypeError for 1 byte): precision / refusals of narrow targets are C17 / C18's
            form = "op"
        if form in ("iop", "outself") and not unary and np.iscomplexobj(b) and not np.iscomplexobj(a):
            form = "op"  # a complex result cannot be written into a real target (NumPy's casting rule)
        try:
            results = _exec(st, form, a, b)
        except Exception as ex:  # noqa: BLE001 - a refusal is an observation (no quantity was produced)
            errors.append({"run": run, "variant": variant, "step": si, "op": st["op"], "meth": st["meth"], "form": form, "exc": type(ex).__name__, "msg": str(ex)[:160], "tb": _tb()})
            real.append(None)
            obs.append(None)
            continue
        mag = 0.0
        for x in (a, b):
            if x is not None:
                try:
                    mag = max(mag, float(np.max(np.abs(np.asarray(x)))))
                except Exception:  # noqa: BLE001
                    pass
        if st["op"] == "powerx":
            first = None
            for label, r in results:
                o, coherent = _project_x(r, model[si + 2])
                if first is None:
                    first = o
                events.append({"kind": "stepx", "op": st["op"], "meth": st["meth"], "form": form + label, "p": st["p"], "A": oa, "B": ob, "R": {k: o[k] for k in ("k", "bare", "ue", "dq", "sv", "rg", "lv", "si")}, "ucons": bool(coherent), "run": run, "variant": variant, "step": si})
            real.append(None)  # a register in exponent space is not an operand of later steps
            obs.append(first)
            continue
        first = None
        for label, r in results:
            o, coherent = _project(r, model[si + 2], mag if st["op"] in ("sin", "cos", "tan", "add", "subtract", "dot", "remainder", "fmod", "divmod_r") or st["meth"] in ("reduce", "accumulate") else 0.0)
            if first is None:
                first = (r, o)
            events.append({"kind": "step", "op": st["op"], "meth": st["meth"], "form": form + label, "p": st["p"], "A": oa, "B": ob, "R": {"k": o["k"], "u": o["u"], "sv": o["sv"], "rg": o["rg"], "cx": o["cx"], "v": o["v"]}, "ucons": bool(coherent), "run": run, "variant": variant, "step": si})
        real.append(first[0] if isinstance(first[0], _U["ua"]) else None)
        obs.append(first[1])
    return events, errors, obs


def observe(case):
    nvar = max(len(st["forms"]) for st in case["steps"])
    if "only_variant" in case:
        variants = [case["only_variant"]]
    else:
        variants = range(nvar)
    events = []
    errors = []
    for variant in variants:
        ea, xa, oa = _run(case, "A", variant)
        eb, xb, ob = _run(case, "B", variant)
        events += ea + eb
        errors += xa + xb
        for i in range(2, len(oa)):
            if oa[i] is not None and ob[i] is not None and oa[i]["k"] == "l" and ob[i]["k"] == "l":
                events.append({"kind": "reexx", "A": {"dq": oa[i]["dq"], "si": oa[i]["si"]}, "B": {"dq": ob[i]["dq"], "si": ob[i]["si"]}, "variant": variant, "step": i - 2, "op": case["steps"][i - 2]["op"]})
            elif oa[i] is not None and ob[i] is not None:
                events.append({"kind": "reex", "A": {"k": oa[i]["k"], "u": oa[i]["u"], "sv": oa[i]["sv"], "v": oa[i]["v"]}, "B": {"k": ob[i]["k"], "u": ob[i]["u"], "sv": ob[i]["sv"], "v": ob[i]["v"]}, "variant": variant, "step": i - 2, "op": case["steps"][i - 2]["op"]})
    return {"events": events, "errors": errors}
