------------------------------ MODULE UnitAlg ------------------------------
(* The multiplicative algebra of unyt Unit objects (property C05).            *)
(*                                                                            *)
(* A unit is the record                                                       *)
(*   [k |-> "unit", ex, c1, clg, lg, dim, off, reg]                           *)
(*   ex   exponent vector of Unit.expr over the atom universe of the case     *)
(*        (a tuple of rationals <<n,d>>, one per atom symbol)                 *)
(*   c1   the numeric coefficient of Unit.expr is exactly 1                   *)
(*   clg  log2 of that coefficient        (exact mode: dyadic model registry) *)
(*   neg  Unit.base_value is negative (the table has one such row, "lat")    *)
(*   lg   log2 of |Unit.base_value|        (exact mode; lgok: the float IS a    *)
(*        rational power of two within 1e-12)                                 *)
(*   dim  exponent vector of Unit.dimensions over the 8 base dimensions       *)
(*   off  Unit.base_offset (rational)                                         *)
(*   reg  small integer naming the registry object the unit is attached to    *)
(*   rs   (observations) state class of that registry: equal tables, equal rs *)
(* or [k |-> "raise"].  In exact mode every scale is a rational power of two, *)
(* so scale arithmetic is linear arithmetic on lg; on real table units        *)
(* ("tab" mode) scales are floats, never enter TLC, and the harness reports   *)
(* relative deviations as integers (unit 1e-16) which the predicates bound.   *)
(*                                                                            *)
(* Part 1 (T, implementation-shaped): UMul/UDiv/UPow/UEq/UHashEq/Simplify/    *)
(*   AsCoeffUnit transcribed from unyt/unit_object.py (__mul__, __truediv__,  *)
(*   __pow__, __eq__, __hash__, simplify/_cancel_mul/_factor_pairs,           *)
(*   as_coeff_unit), same guard order.                                        *)
(* Part 2: the laws as straight-line programs over registers.                 *)
(* Part 3 (P): the C05 predicates, evaluated on a "run" (registers + the      *)
(*   observed ==/hash outcomes); they say only what the property says.        *)
EXTENDS Rational, Sequences, FiniteSets, TLC, Json

(* ------------------------------ vectors ---------------------------------- *)
\* rational helpers with fast paths (most vector entries are 0 or 1)
QAdd(a, b) == IF a[1] = 0 THEN b ELSE IF b[1] = 0 THEN a ELSE RAdd(a, b)
QSub(a, b) == IF b[1] = 0 THEN a ELSE IF a = b THEN RZero ELSE RSub(a, b)
QMul(a, b) == IF a[1] = 0 \/ b[1] = 0 THEN RZero ELSE IF a = ROne THEN b ELSE IF b = ROne THEN a ELSE RMul(a, b)
ND == 8   \* mass, length, time, temperature, angle, current_mks, luminous_intensity, logarithmic
VAdd(a, b) == [i \in DOMAIN a |-> QAdd(a[i], b[i])]
VSub(a, b) == [i \in DOMAIN a |-> QSub(a[i], b[i])]
VScale(a, p) == IF p = ROne THEN a ELSE [i \in DOMAIN a |-> QMul(a[i], p)]
VIsZero(a) == \A i \in DOMAIN a : RIsZero(a[i])
VZero(n) == [i \in 1..n |-> RZero]
DUnit(k) == [i \in 1..ND |-> IF i = k THEN ROne ELSE RZero]
RECURSIVE DotFrom(_, _, _)
\* sum_i ex[i] * w[i]  (w a tuple of rationals)
DotFrom(ex, w, i) == IF i > Len(ex) THEN RZero ELSE QAdd(QMul(ex[i], w[i]), DotFrom(ex, w, i + 1))
Dot(ex, w) == DotFrom(ex, w, 1)
RECURSIVE DotVFrom(_, _, _)
\* sum_i ex[i] * W[i]  (W a tuple of dimension vectors)
DotVFrom(ex, W, i) == IF i > Len(ex) THEN VZero(ND) ELSE IF ex[i][1] = 0 THEN DotVFrom(ex, W, i + 1) ELSE VAdd(VScale(W[i], ex[i]), DotVFrom(ex, W, i + 1))
DotV(ex, W) == DotVFrom(ex, W, 1)

(* ------------------------------ exponents -------------------------------- *)
\* An exponent as the caller writes it: [n, d, kind]
\*   int    python int n                     frac   fractions.Fraction(n, d)
\*   sym    sympy.Rational(n, d)             float  the float n/d
\*   dec2   the float written with two decimals ("0.33")
\* spellings whose VALUE as a float is not the rational they are read as (the reading is the exponent of the
\* expression and of the dimension; the scale has to be raised to the same reading):
\*   dec7   the float written with seven decimals (0.3333333)       f32   numpy.float32(n/d)
\*   f16    numpy.float16(n/d) (only for n/d whose shortest float16 spelling is n/d: tenths, dyadics)
\*   np64   numpy.float64(n/d)           dcm   decimal.Decimal with seven decimals
\*   str    the string "n/d"             strd  the string with seven decimals ("0.3333333")
\* For these Rational(str(p)).limit_denominator() is n/d when d <= 9 (or d = 10 for one-digit decimals) and |n/d| < 2:
\* a fraction a/b, b <= 10**6, other than n/d is at least 1/(9 * 10**6) > 2 * 5e-8 away.  The pools keep to that.
ReadKinds == {"dec7", "f32", "f16", "np64", "dcm", "str", "strd"}
\* Unit.__pow__ : p = Rational(str(p)).limit_denominator()   (max denominator 10**6)
Eff(e) == IF e.kind = "dec2" THEN Norm((2 * e.n * 100 + e.d) \div (2 * e.d), 100) ELSE Norm(e.n, e.d)
Ex(n, d, kind) == [n |-> n, d |-> d, kind |-> kind]
ExR(r, kind) == [n |-> r[1], d |-> r[2], kind |-> kind]
E1 == Ex(1, 1, "int")
EM1 == Ex(-1, 1, "int")
E0 == Ex(0, 1, "int")

(* ------------------- Part 1: transcription of unit_object.py ------------- *)
Raise == [k |-> "raise"]
IsUnit(u) == u.k = "unit"
IsDimless(u) == VIsZero(u.dim)            \* dimensions is sympy_one
IsLog(u) == u.dim = DUnit(8)              \* dimensions is logarithmic
IsTempOrAngle(u) == u.dim = DUnit(4) \/ u.dim = DUnit(5)
HasOff(u) == ~RIsZero(u.off)
Plain(u) == IsUnit(u) /\ ~HasOff(u) /\ ~IsLog(u)

MkUnit(ex, clg, lg, neg, dim, off, reg, c1tab, exact) ==
  [k |-> "unit", ex |-> ex, clg |-> clg, c1 |-> IF exact THEN RIsZero(clg) ELSE c1tab,
   lg |-> lg, neg |-> neg, dim |-> dim, off |-> off, reg |-> reg]

\* Unit.__mul__(self=a, u=b), both Unit objects
UMul(a, b, exact) ==
  IF ~IsUnit(a) \/ ~IsUnit(b) THEN Raise
  ELSE IF IsLog(a) /\ ~IsDimless(b) THEN Raise
  ELSE IF IsLog(b) /\ ~IsDimless(a) THEN Raise
  ELSE IF (HasOff(a) \/ HasOff(b)) /\ ~(IsTempOrAngle(b) /\ IsDimless(a)) /\ ~(IsTempOrAngle(a) /\ IsDimless(b)) THEN Raise
  ELSE LET off == IF HasOff(a) \/ HasOff(b)
                  THEN (IF IsTempOrAngle(b) /\ IsDimless(a) THEN b.off ELSE a.off)
                  ELSE RZero IN
       MkUnit(VAdd(a.ex, b.ex), QAdd(a.clg, b.clg), QAdd(a.lg, b.lg), a.neg # b.neg, VAdd(a.dim, b.dim), off, a.reg, a.c1 /\ b.c1, exact)

\* Unit.__truediv__(self=a, u=b)
UDiv(a, b, exact) ==
  IF ~IsUnit(a) \/ ~IsUnit(b) THEN Raise
  ELSE IF IsLog(a) /\ ~IsDimless(b) THEN Raise
  ELSE IF IsLog(b) /\ ~IsDimless(a) THEN Raise
  ELSE IF (HasOff(a) \/ HasOff(b)) /\ ~(IsTempOrAngle(a) /\ IsDimless(b)) THEN Raise
  ELSE LET off == IF HasOff(a) \/ HasOff(b) THEN a.off ELSE RZero IN
       MkUnit(VSub(a.ex, b.ex), QSub(a.clg, b.clg), QSub(a.lg, b.lg), a.neg # b.neg, VSub(a.dim, b.dim), off, a.reg, a.c1 /\ b.c1, exact)

\* Unit.__pow__(self=a, p) : offset units only to the power 1 (and then the offset is not carried)
UPow(a, e, exact) ==
  IF ~IsUnit(a) THEN Raise
  ELSE LET p == Eff(e) IN
       IF IsLog(a) /\ p # ROne THEN Raise
       \* (since the repair "refuse powers of units with an offset")
       ELSE IF HasOff(a) /\ p # ROne THEN Raise
       \* base_value ** p on a negative scale (the table's "lat") with a non-integral p is complex: float() raises TypeError
       ELSE IF a.neg /\ p[2] # 1 THEN Raise
       ELSE MkUnit(VScale(a.ex, p), QMul(a.clg, p), QMul(a.lg, p), a.neg /\ (p[1] % 2 = 1), VScale(a.dim, p), RZero, a.reg, a.c1, exact)

\* Unit.__eq__ : isclose(base_value), isclose(base_offset), dimensions equal  (exact mode: scales are well separated)
UEq(a, b) == IsUnit(a) /\ IsUnit(b) /\ a.lg = b.lg /\ a.neg = b.neg /\ a.off = b.off /\ a.dim = b.dim
\* Unit.__hash__ = registry.unit_system_id XOR hash(expr)
SameExpr(a, b) == a.ex = b.ex /\ a.clg = b.clg /\ a.c1 = b.c1
\* (unit_system_id is a digest of the table: two registry objects in the same state share it; rs names that state)
UHashEq(a, b) == a.rs = b.rs /\ SameExpr(a, b)

\* ---- simplify / _cancel_mul / _factor_pairs ----
\* expanded factors of the expression: for atom i with exponent e: base**Mod(e,1) when e is not integral,
\* then floor(e) copies of base (or |floor(e)| copies of 1/base).  A factor is <<i, x>>, x the exponent it carries.
FracPart(e) == RSub(e, R(RFloor(e)))
FactorCount(ex, f) ==
  LET e == ex[f[1]] fl == RFloor(e) fr == FracPart(e) IN
  IF f[2] = ROne THEN (IF fl > 0 THEN fl ELSE 0)
  ELSE IF f[2] = R(-1) THEN (IF fl < 0 THEN -fl ELSE 0)
  ELSE IF ~RIsZero(fr) /\ f[2] = fr THEN 1 ELSE 0
Factors(ex) == {f \in UNION {{<<i, ROne>>, <<i, R(-1)>>, <<i, FracPart(ex[i])>>} : i \in DOMAIN ex} : FactorCount(ex, f) > 0}
\* a pair cancels when the product of the two factor units is dimensionless (prod.dimensions == 1)
Cancels(f, g, adim) == VIsZero(VAdd(VScale(adim[f[1]], f[2]), VScale(adim[g[1]], g[2])))
CancelPairs(ex, adim) ==
  {pr \in Factors(ex) \X Factors(ex) :
     /\ (pr[1] = pr[2] => FactorCount(ex, pr[1]) >= 2)
     /\ Cancels(pr[1], pr[2], adim)}
\* expr / pair[0] / pair[1] * prod.base_value
ApplyCancel(st, pr, alg) ==
  LET f == pr[1] g == pr[2]
      ex1 == [st.ex EXCEPT ![f[1]] = RSub(@, f[2])]
      ex2 == [ex1 EXCEPT ![g[1]] = RSub(@, g[2])] IN
  [ex |-> ex2, clg |-> RAdd(st.clg, RAdd(RMul(alg[f[1]], f[2]), RMul(alg[g[1]], g[2])))]
\* every form a complete run of the cancellation loop can end in (the order in which sympy lists the factors
\* is not modelled: the transcription is the set of outcomes over all orders)
CancelSucc(st, alg, adim) == {ApplyCancel(st, pr, alg) : pr \in CancelPairs(st.ex, adim)}
RECURSIVE CancelReach(_, _, _, _)
\* breadth-first closure (cancellations commute, so the reachable set is small even when the paths are many)
CancelReach(frontier, seen, alg, adim) ==
  IF frontier = {} THEN seen
  ELSE LET new == (UNION {CancelSucc(st, alg, adim) : st \in frontier}) \ seen IN
       CancelReach(new, seen \cup new, alg, adim)
CancelSet(st, alg, adim) == {s \in CancelReach({st}, {st}, alg, adim) : CancelPairs(s.ex, adim) = {}}
SimplifySet(u, alg, adim) == CancelSet([ex |-> u.ex, clg |-> u.clg], alg, adim)
\* _create_unit_from_factor looks every factor of every considered pair up in the unit's own registry (registry[str(base)]):
\* with two or more factors every factor is looked up; a symbol the registry does not hold -> SymbolNotFoundError.
\* ain[i] = the set (tuple) of registry ids whose table holds atom i
NFactors(ex) == LET F == Factors(ex) IN IF F = {} THEN 0 ELSE IF Cardinality(F) >= 2 THEN 2 ELSE FactorCount(ex, CHOOSE f \in F : TRUE)
InReg(ain, i, reg) == \E x \in DOMAIN ain[i] : ain[i][x] = reg
\* a logarithmic symbol among two or more factors: building the pair's units can hit the logarithmic guards of __pow__ /
\* __mul__ (InvalidUnitOperation) - whether that pair is reached before others cancel depends on sympy's factor order,
\* which is not modelled: the transcription allows both outcomes
SimplifyMayRaise(u, adim) == NFactors(u.ex) >= 2 /\ \E i \in DOMAIN u.ex : ~RIsZero(u.ex[i]) /\ adim[i] = DUnit(8)
\* the same for a symbol with an offset under a negative or fractional exponent, should Unit.__pow__ refuse offset units
\* (a repair proposed for C08): aoff[i] = the table row of atom i has an offset
SimplifyMayRaiseOff(u, aoff) ==
  NFactors(u.ex) >= 2 /\ \E i \in DOMAIN u.ex : aoff[i] /\ ~RIsZero(u.ex[i]) /\ (u.ex[i][2] # 1 \/ u.ex[i][1] < 0)
SimplifyRaises(u, ain) == NFactors(u.ex) >= 2 /\ \E i \in DOMAIN u.ex : ~RIsZero(u.ex[i]) /\ ~InReg(ain, i, u.reg)

\* as_coeff_unit : (coeff, Unit(mul, base_value / coeff, base_offset, dimensions, registry))
AsCoeffUnit(u) ==
  IF ~IsUnit(u) THEN Raise
  ELSE [k |-> "unit", ex |-> u.ex, clg |-> RZero, c1 |-> TRUE, lg |-> RSub(u.lg, u.clg), neg |-> u.neg,
        dim |-> u.dim, off |-> u.off, reg |-> u.reg, cf |-> u.clg]

(* ---------------------- Part 2: laws as register programs ---------------- *)
\* registers 1..3 = the leaves u, v, w ; register 4 = the dimensionless unit of u's registry ;
\* instruction k writes register 4 + k.
I(op, a, b, e) == [op |-> op, a |-> a, b |-> b, e |-> e]
Mul(a, b) == I("mul", a, b, E1)
Div(a, b) == I("div", a, b, E1)
Pow(a, e) == I("pow", a, 0, e)
Simp(a) == I("simplify", a, 0, E1)
\* what an instruction means for the algebra: the unary rules are powers / a product reached through unyt.array
Sem(ins) == CASE ins.op = "sqrtrule" -> I("pow", ins.a, 0, Ex(1, 2, "float"))
              [] ins.op = "recrule" -> I("pow", ins.a, 0, Ex(-1, 1, "int"))
              [] ins.op = "sqrrule" -> I("mul", ins.a, ins.a, Ex(1, 1, "int"))
              [] OTHER -> ins
Coef(a) == I("coeff", a, 0, E1)
\* the memoised unit rules of unyt/array.py: _multiply_units / _divide_units = as_coeff_unit(simplify(u*v | u/v))
MulRule(a, b) == I("mulrule", a, b, E1)
DivRule(a, b) == I("divrule", a, b, E1)
\* the unary rules: _sqrt_unit = unit**0.5, _reciprocal_unit = unit**-1, _square_unit = unit*unit (factor 1)
SqrtRule(a) == I("sqrtrule", a, 0, E1)
RecRule(a) == I("recrule", a, 0, E1)
SqrRule(a) == I("sqrrule", a, 0, E1)
\* (histories) the object leaf a was in phase 0 - a unit created before the registry was edited, used as an operand
Old(a) == I("old", a, 0, E1)
\* kinds of register pairs: "law" - the law says both denote the same unit; "twin" - the same construction twice
\* (law + same expression + same hash); "probe" - only the semantics of == is looked at
Pr(i, j, kind) == [i |-> i, j |-> j, kind |-> kind]
One == 4

Laws == {"comm", "ident", "assoc", "powpow", "powmul", "powadd", "simp", "eqsem", "rules", "state", "coef"}

Prog(law, p, q) ==
  CASE law = "comm" ->    \* u*v == v*u ; u/v == u*v**-1 == v**-1*u
         <<Mul(1, 2), Mul(2, 1), Mul(1, 2), Div(1, 2), Pow(2, EM1), Mul(1, 9), Mul(9, 1)>>
    [] law = "ident" ->   \* u*1 == 1*u == u/1 == u ; u*u**-1 == u**-1*u == u/u == u**0 == 1
         <<Mul(1, One), Mul(One, 1), Div(1, One), Pow(1, EM1), Mul(1, 8), Mul(8, 1), Div(1, 1), Pow(1, E0), Pow(1, E1)>>
    [] law = "assoc" ->   \* (u*v)*w == u*(v*w) ; (u*v)/w == u*(v/w) ; (u/v)/w == u/(v*w)
         <<Mul(1, 2), Mul(5, 3), Mul(2, 3), Mul(1, 7), Div(5, 3), Div(2, 3), Mul(1, 10), Div(1, 2), Div(12, 3), Div(1, 7)>>
    [] law = "powpow" ->  \* (u**p)**q == u**(p*q) == (u**q)**p
         <<Pow(1, p), Pow(5, q), Pow(1, ExR(RMul(Eff(p), Eff(q)), "frac")), Pow(1, q), Pow(8, p)>>
    [] law = "powmul" ->  \* (u*v)**p == u**p * v**p ; (u/v)**p == u**p / v**p
         <<Mul(1, 2), Pow(5, p), Pow(1, p), Pow(2, p), Mul(7, 8), Div(1, 2), Pow(10, p), Div(7, 8)>>
    [] law = "powadd" ->  \* u**p * u**q == u**(p+q) ; u**p / u**q == u**(p-q)
         <<Pow(1, p), Pow(1, q), Mul(5, 6), Pow(1, ExR(RAdd(Eff(p), Eff(q)), "frac")), Div(5, 6), Pow(1, ExR(RSub(Eff(p), Eff(q)), "frac"))>>
    [] law = "simp" ->    \* t = u**p * v / w ; t.simplify() and as_coeff_unit() denote the same unit as t built afresh
         <<Pow(1, p), Mul(5, 2), Div(6, 3), Simp(7), Coef(8), Pow(1, p), Mul(10, 2), Div(11, 3), Mul(1, 2), Simp(13), Coef(14)>>
    [] law = "eqsem" ->   \* == between two leaves and their trivial re-expressions
         <<Mul(2, One), Div(1, One)>>
    [] law = "state" ->   \* run in EVERY phase of a registry history, on terms re-built in the current registry state
         <<Mul(1, 2), Div(5, 3), Simp(6), Coef(7), Coef(6), MulRule(1, 2), DivRule(1, 3), Pow(1, p), Div(12, 3), Simp(13),
           SqrtRule(5), RecRule(1), SqrRule(2), Div(1, 3), Simp(18), Coef(19), Mul(1, 2), Simp(7), Mul(7, 3), Simp(23), Simp(19),
           \* r = (u as created before the edits) / (u now): expression 1, scale old/new - as right and left operand
           Old(1), Div(26, 1), Mul(2, 27), Mul(27, 2), Div(2, 27), Pow(27, EM1), Mul(2, 31), Mul(5, 27), Div(28, 3), Div(27, 3), Mul(2, 35)>>
    [] law = "coef" ->    \* operations ON forms that already carry a numeric coefficient: t = (u*v/w).simplify() ;
                          \* simplify again, as_coeff_unit, t*v, t/u, t**p (p integral), the rules with t as an operand
         <<Mul(1, 2), Div(5, 3), Simp(6), Simp(7), Coef(8), Mul(7, 2), Simp(10), Div(7, 1), Simp(12), Coef(13),
           Pow(7, p), Simp(15), Coef(16), MulRule(7, 3), DivRule(7, 2), Simp(1), Simp(20), Coef(1), Div(1, 3), Simp(23), Simp(24),
           Mul(2, 7), Div(2, 7), MulRule(3, 7)>>
    [] law = "rules" ->   \* the (factor, unit) a ufunc gets for u*v and u/v denotes u*v and u/v ; asked twice (memo hit)
         <<MulRule(1, 2), DivRule(1, 2), Mul(1, 2), Div(1, 2), MulRule(1, 2), DivRule(1, 2), MulRule(2, 1)>>

Pairs(law) ==
  CASE law = "comm" -> <<Pr(5, 6, "law"), Pr(5, 7, "twin"), Pr(8, 10, "law"), Pr(10, 11, "law")>>
    [] law = "ident" -> <<Pr(5, 1, "law"), Pr(6, 1, "law"), Pr(7, 1, "law"), Pr(9, One, "law"), Pr(10, One, "law"),
                          Pr(11, One, "law"), Pr(12, One, "law"), Pr(13, 1, "probe")>>
    [] law = "assoc" -> <<Pr(6, 8, "law"), Pr(9, 11, "law"), Pr(13, 14, "law")>>
    [] law = "powpow" -> <<Pr(6, 7, "law"), Pr(9, 7, "law"), Pr(6, 9, "law")>>
    [] law = "powmul" -> <<Pr(6, 9, "law"), Pr(11, 12, "law")>>
    [] law = "powadd" -> <<Pr(7, 8, "law"), Pr(9, 10, "law")>>
    [] law = "simp" -> <<Pr(8, 12, "law"), Pr(9, 12, "probe"), Pr(15, 14, "probe"), Pr(6, 11, "twin"), Pr(14, 12, "probe")>>
    [] law = "eqsem" -> <<Pr(1, 2, "probe"), Pr(1, 5, "probe"), Pr(6, 2, "probe"), Pr(1, 1, "law"), Pr(2, 2, "law")>>
    [] law = "state" -> <<Pr(7, 6, "law"), Pr(14, 13, "law"), Pr(19, 18, "law"), Pr(5, 21, "twin"), Pr(8, 6, "probe"),
                          Pr(20, 18, "probe"), Pr(10, 5, "probe"), Pr(11, 18, "probe"), Pr(1, 3, "probe"), Pr(17, 2, "probe"),
                          Pr(22, 6, "law"), Pr(24, 23, "law"), Pr(25, 18, "law"),
                          Pr(28, 29, "law"), Pr(30, 32, "law"), Pr(34, 36, "law"), Pr(26, 1, "probe")>>
    [] law = "coef" -> <<Pr(7, 6, "law"), Pr(8, 6, "law"), Pr(8, 7, "law"), Pr(11, 10, "law"), Pr(13, 12, "law"), Pr(16, 15, "law"),
                         Pr(20, 1, "law"), Pr(21, 1, "law"), Pr(24, 23, "law"), Pr(25, 23, "law"), Pr(9, 6, "probe"), Pr(17, 15, "probe"),
                         Pr(22, 1, "probe"), Pr(14, 12, "probe"), Pr(26, 10, "law"), Pr(28, 18, "probe")>>
    [] law = "rules" -> <<Pr(5, 7, "probe"), Pr(6, 8, "probe"), Pr(5, 9, "law"), Pr(6, 10, "law"), Pr(5, 11, "probe")>>

(* --------------------------- Part 3: C05 predicates ---------------------- *)
\* A run W: [exact, alg, adim, regs, prog, pairs (with observed eq, eqr, heq, same, serr), herr, serr units 1e-16]
HomTol == 200          \* 2e-14 : one operation
LawTol == 100000       \* 1e-11 : two short constructions of the same unit
FarTol == 40000000     \* 4e-9  : farther apart than math.isclose's default rel_tol can bridge
NLeaf == 4
Res(W, k) == W.regs[NLeaf + k]
LeavesPlain(W) == \A r \in 1..3 : Plain(W.regs[r])
Homog(W) == \A r \in 1..3 : IsUnit(W.regs[r]) => W.regs[r].reg = W.regs[1].reg
LeavesPositive(W) == \A r \in 1..3 : IsUnit(W.regs[r]) => ~W.regs[r].neg

\* C05_Hom: the scale of a product is the product of scales, its dimension the product of dimensions
\* (and likewise for quotients and powers).  Returns the set of failing instruction indices.
HomOk(W, k) ==
  LET ins == Sem(W.prog[k]) res == Res(W, k) IN
  IF ins.op \notin {"mul", "div", "pow"} \/ ~IsUnit(res) THEN TRUE
  ELSE LET a == W.regs[ins.a] IN
       CASE ins.op = "mul" -> LET b == W.regs[ins.b] IN
              /\ res.dim = VAdd(a.dim, b.dim) /\ W.herr[k] <= HomTol
              /\ W.exact => (res.lgok /\ res.lg = RAdd(a.lg, b.lg) /\ res.neg = (a.neg # b.neg))
         [] ins.op = "div" -> LET b == W.regs[ins.b] IN
              /\ res.dim = VSub(a.dim, b.dim) /\ W.herr[k] <= HomTol
              /\ W.exact => (res.lgok /\ res.lg = RSub(a.lg, b.lg) /\ res.neg = (a.neg # b.neg))
         [] ins.op = "pow" ->
              \* (a float power carries the rounding of the exponent: relative error ~ |ln result| * 1.1e-16;
              \*  hcond[k] = ceil |ln of the result's scale|, an observed magnitude)
              /\ res.dim = VScale(a.dim, Eff(ins.e)) /\ W.herr[k] <= HomTol + 4 * W.hcond[k]
              /\ W.exact => (res.lgok /\ res.lg = RMul(a.lg, Eff(ins.e)))

\* C05_Sync: expression, scale and dimension of a result denote the same unit (the map from the expression
\* to (scale, dimension) through the registry's table).  Only when all leaves live in one registry.
\* (sympy treats every unit symbol as positive: with the negative-scale row "lat" the expression of (lat**2)**(1/2) is lat
\*  although the scale is |lat| - a fact of arithmetic, not of the implementation; positive leaves only)
\* the equations themselves
SyncEq(W, u) ==
  /\ DotV(u.ex, W.adim) = u.dim
  /\ u.syncerr <= LawTol
  /\ W.exact => (u.lgok /\ RAdd(u.clg, Dot(u.ex, W.alg)) = u.lg)
\* A leaf may be GIVEN with a scale its expression does not resolve to (Unit(expr, base_value=..., dimensions=...), e.g. a
\* dimensionless unit with expression 1 and scale 1/2): such operands are legitimate units of the algebra - every other
\* clause applies to them - but what they are built into cannot denote its scale through the table, so Sync is asked
\* only when every leaf is itself in sync.
LeavesSynced(W) == \A r \in 1..3 : (IsUnit(W.regs[r]) /\ ~W.regs[r].alien) => SyncEq(W, W.regs[r])
SyncApplies(W, u) == IsUnit(u) /\ Homog(W) /\ u.reg = W.regs[1].reg /\ ~u.alien /\ LeavesPositive(W) /\ LeavesSynced(W)
SyncOk(W, u) == SyncApplies(W, u) => SyncEq(W, u)
\* in a registry history the instructions from the first "old" on work with an object created BEFORE the edit (it keeps
\* its scale: its expression no longer denotes it in the current table); Sync is asked of the results before that point
RECURSIVE OldStartFrom(_, _)
OldStartFrom(prog, k) == IF k > Len(prog) THEN k ELSE IF prog[k].op = "old" THEN k ELSE OldStartFrom(prog, k + 1)
OldStart(prog) == OldStartFrom(prog, 1)

\* C05_Law: two constructions the laws identify denote the same unit and compare equal
PairBoth(W, pr) == IsUnit(W.regs[pr.i]) /\ IsUnit(W.regs[pr.j])
\* (the power laws are laws of positive scales: the one table row with a negative scale, "lat", is outside them)
LawApplies(W, pr) == pr.kind \in {"law", "twin"} /\ PairBoth(W, pr) /\ (W.law \in {"powpow", "powmul", "powadd"} => LeavesPositive(W))
LawOk(W, pr) ==
  LawApplies(W, pr) =>
    LET a == W.regs[pr.i] b == W.regs[pr.j] IN
    /\ a.dim = b.dim /\ a.off = b.off /\ pr.serr <= LawTol
    /\ W.exact => (a.lg = b.lg /\ a.neg = b.neg)
    /\ pr.eq /\ pr.eqr
    \* (asked with the other operator of the same relation: "a != b" is the negation of "a == b")
    /\ ~pr.ne /\ ~pr.ner
\* C05_Eq: equality is decided by scale, offset and dimension only
EqSemOk(W, pr) ==
  PairBoth(W, pr) =>
    LET a == W.regs[pr.i] b == W.regs[pr.j]
        same3 == a.dim = b.dim /\ a.off = b.off /\ pr.serr <= LawTol
        diff3 == a.dim # b.dim \/ a.off # b.off \/ pr.serr >= FarTol IN
    /\ same3 => (pr.eq /\ pr.eqr /\ ~pr.ne /\ ~pr.ner)
    /\ diff3 => (~pr.eq /\ ~pr.eqr /\ pr.ne /\ pr.ner)
    \* equality is ONE relation: whatever == answers (also between the two tolerances), != answers the opposite
    /\ pr.ne = ~pr.eq /\ pr.ner = ~pr.eqr
\* C05_Hash: the same expression in the same registry state hashes equally
HashOk(W, pr) ==
  PairBoth(W, pr) =>
    LET a == W.regs[pr.i] b == W.regs[pr.j] IN
    \* rs = the state class of the unit's registry (registries with equal tables are in one class)
    /\ (pr.same /\ a.rs = b.rs) => pr.heq
    /\ pr.kind = "twin" => pr.heq
\* C05_Closed: on offset-free, non-logarithmic units every operation of the algebra is defined
\* (one registry; the first failing operation only: its operands did return)
ClosedOk(W, k) ==
  LET ins == Sem(W.prog[k]) IN
  (ins.op # "old" /\ LeavesPlain(W) /\ Homog(W) /\ IsUnit(W.regs[ins.a]) /\ (ins.b # 0 => IsUnit(W.regs[ins.b]))) => IsUnit(Res(W, k))
\* C05_Simplify / C05_Coeff: the returned form denotes the same unit as before
SimpOk(W, k) ==
  LET ins == W.prog[k] res == Res(W, k) IN
  (ins.op \in {"simplify", "coeff"} /\ IsUnit(res) /\ IsUnit(W.regs[ins.a])) =>
    LET a == W.regs[ins.a] IN
    /\ res.dim = a.dim /\ res.off = a.off /\ W.herr[k] <= HomTol
    /\ (W.exact /\ ins.op = "simplify") => (res.lgok /\ res.lg = a.lg)
    /\ (W.exact /\ ins.op = "coeff") => (res.lgok /\ RAdd(res.cf, res.lg) = a.lg)

\* C05 on the unit rules: factor * unit denotes the product / quotient of the operands
RuleOk(W, k) ==
  LET ins == W.prog[k] res == Res(W, k) IN
  (ins.op \in {"mulrule", "divrule"} /\ IsUnit(res)) =>
    LET a == W.regs[ins.a] b == W.regs[ins.b] IN
    /\ res.dim = (IF ins.op = "mulrule" THEN VAdd(a.dim, b.dim) ELSE VSub(a.dim, b.dim))
    /\ W.herr[k] <= HomTol
    /\ W.exact => (res.lgok /\ RAdd(res.cf, res.lg) = (IF ins.op = "mulrule" THEN RAdd(a.lg, b.lg) ELSE RSub(a.lg, b.lg)))

\* C05_Current (registry histories): a term built from a string in the CURRENT registry state denotes what the current
\* definitions imply, whatever was computed before the edit (W.alg / W.adim are the table the history has reached)
CurrentOk(W, r) == W.hist => SyncOk(W, W.regs[r])

\* the failing clauses of a run, as a set of records (empty = C05 holds on this run)
Fails(W) ==
  {[clause |-> "Hom", at |-> k] : k \in {x \in DOMAIN W.prog : ~HomOk(W, x)}}
  \cup {[clause |-> "Sync", at |-> k] : k \in {x \in DOMAIN W.prog : x < OldStart(W.prog) /\ ~SyncOk(W, Res(W, x))}}
  \cup {[clause |-> "Closed", at |-> k] : k \in {x \in DOMAIN W.prog : ~ClosedOk(W, x)}}
  \cup {[clause |-> "Denote", at |-> k] : k \in {x \in DOMAIN W.prog : ~SimpOk(W, x)}}
  \cup {[clause |-> "Rule", at |-> k] : k \in {x \in DOMAIN W.prog : ~RuleOk(W, x)}}
  \cup {[clause |-> "Current", at |-> k] : k \in {x \in 1..NLeaf : ~CurrentOk(W, x)}}
  \cup {[clause |-> "Law", at |-> k] : k \in {x \in DOMAIN W.pairs : ~LawOk(W, W.pairs[x])}}
  \cup {[clause |-> "Eq", at |-> k] : k \in {x \in DOMAIN W.pairs : ~EqSemOk(W, W.pairs[x])}}
  \cup {[clause |-> "Hash", at |-> k] : k \in {x \in DOMAIN W.pairs : ~HashOk(W, W.pairs[x])}}
=============================================================================
