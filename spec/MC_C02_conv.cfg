CONSTANTS
  Stride = 1
  Phase = 0
INIT Init
NEXT NextConv
INVARIANT Export
CHECK_DEADLOCK FALSE
