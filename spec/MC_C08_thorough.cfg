CONSTANTS
  ArithP = {"", "M", "k", "h", "da", "d", "c", "m", "u"}
  ConvSrcP = {"", "Y", "Z", "E", "P", "T", "G", "M", "k", "h", "da", "d", "c", "m", "u", "n", "p", "f", "a", "z", "y"}
  ConvDstP = {"", "Y", "Z", "E", "P", "T", "G", "M", "k", "h", "da", "d", "c", "m", "u", "n", "p", "f", "a", "z", "y"}
  ReadSets = {1, 2}
  Shapes = {"arr", "sc"}
  BinForms = {"operator", "ufunc", "inplace", "out"}
  BinOpSet = {"add", "subtract", "maximum", "minimum", "less", "greater", "less_equal", "greater_equal", "equal", "not_equal"}
  ConvVias = {"in_units", "to", "convert_to_units", "to_value", "in_base"}
  ChainP = {"", "m", "k"}
  ChainTgt = {"K", "R", "degC", "degF", "mdegC"}
  ChainDT = {"f8", "f4"}
  ChainLen3 = TRUE
INIT Init
NEXT Next
INVARIANT Export
CHECK_DEADLOCK FALSE
